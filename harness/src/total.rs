//! C06 / C20: every text entry point returns Ok or Err; the rendered error message is recorded verbatim.

use std::collections::HashMap;
use std::panic::{catch_unwind, AssertUnwindSafe};

use serde_json::{json, Value as J};
use simfony::parse::ParseFromStr;
use simfony::types::{ResolvedType, TypeConstructible, TypeInner};
use simfony::value::ValueConstructible;
use simfony::{Arguments, TemplateProgram, Value, WitnessValues};

use crate::conv::*;
use crate::panic_message;

/// all-zero value of a type
pub fn zero_value(ty: &ResolvedType) -> Value {
    use simfony::value::UIntValue;
    match ty.as_inner() {
        TypeInner::Boolean => Value::from(false),
        TypeInner::UInt(u) => {
            let n = u.bit_width().get();
            match n {
                1 => Value::from(UIntValue::U1(0)),
                2 => Value::from(UIntValue::U2(0)),
                4 => Value::from(UIntValue::U4(0)),
                8 => Value::from(UIntValue::U8(0)),
                16 => Value::from(UIntValue::U16(0)),
                32 => Value::from(UIntValue::U32(0)),
                64 => Value::from(UIntValue::U64(0)),
                128 => Value::from(UIntValue::U128(0)),
                _ => Value::from(UIntValue::try_from([0u8; 32].as_slice()).unwrap()),
            }
        }
        TypeInner::Tuple(es) => Value::tuple(es.iter().map(|e| zero_value(e))),
        TypeInner::Array(e, n) => Value::array((0..*n).map(|_| zero_value(e)), e.as_ref().clone()),
        TypeInner::List(e, b) => Value::list(std::iter::empty(), e.as_ref().clone(), *b),
        TypeInner::Option(e) => Value::none(e.as_ref().clone()),
        TypeInner::Either(l, r) => Value::left(zero_value(l), r.as_ref().clone()),
        _ => Value::from(false),
    }
}

fn value_types() -> Vec<ResolvedType> {
    let u8t = ResolvedType::u8();
    vec![
        ResolvedType::boolean(),
        ResolvedType::u1(),
        ResolvedType::u2(),
        ResolvedType::u4(),
        u8t.clone(),
        ResolvedType::u16(),
        ResolvedType::u32(),
        ResolvedType::u64(),
        ResolvedType::u128(),
        ResolvedType::u256(),
        ResolvedType::unit(),
        ResolvedType::tuple([u8t.clone()]),
        ResolvedType::tuple([u8t.clone(), ResolvedType::boolean()]),
        ResolvedType::array(u8t.clone(), 0),
        ResolvedType::array(u8t.clone(), 1),
        ResolvedType::array(u8t.clone(), 2),
        ResolvedType::array(ResolvedType::boolean(), 2),
        ResolvedType::list(u8t.clone(), simfony::num::NonZeroPow2Usize::new(2).unwrap()),
        ResolvedType::list(u8t.clone(), simfony::num::NonZeroPow2Usize::new(4).unwrap()),
        ResolvedType::option(u8t.clone()),
        ResolvedType::either(u8t.clone(), ResolvedType::boolean()),
    ]
}

fn outcome<T>(r: std::thread::Result<Result<T, String>>) -> (String, String) {
    match r {
        Ok(Ok(_)) => ("ok".into(), String::new()),
        Ok(Err(e)) => ("err".into(), e),
        Err(p) => ("panic".into(), panic_message(p)),
    }
}

/// `{"kind":"total","entry":..,"tokens":..,"sep":..}` or with "src"
pub fn total(case: &J) -> R<J> {
    let sep = case.get("sep").and_then(|s| s.as_str()).unwrap_or(" ");
    let src = match case.get("src").and_then(|s| s.as_str()) {
        Some(s) => s.to_string(),
        None => {
            // "trail": text appended after the last token (e.g. a final line terminator)
            let mut t = join_tokens(&case["tokens"], sep)?;
            if let Some(tr) = case.get("trail").and_then(|s| s.as_str()) {
                t.push_str(tr);
            }
            // "lead": text in front of the first token (blank lines, indentation)
            if let Some(ld) = case.get("lead").and_then(|s| s.as_str()) {
                t.insert_str(0, ld);
            }
            t
        }
    };
    let entry = case["entry"].as_str().unwrap_or("program");
    let mut calls: Vec<J> = vec![];
    let mut record = |name: &str, o: (String, String)| {
        calls.push(json!({"call": name, "outcome": o.0, "msg": o.1}));
    };
    match entry {
        "program" => {
            let r = catch_unwind(AssertUnwindSafe(|| TemplateProgram::new(src.as_str())));
            match r {
                Ok(Ok(tmpl)) => {
                    record("new", ("ok".into(), String::new()));
                    // instantiate with zero arguments for every reported parameter, with and without debug symbols
                    let args: HashMap<_, _> = tmpl.parameters().iter().map(|(n, t)| (n.clone(), zero_value(t))).collect();
                    for dbg in [false, true] {
                        let r = catch_unwind(AssertUnwindSafe(|| {
                            tmpl.instantiate(Arguments::from(args.clone()), dbg).map(|c| {
                                let commit = c.commit();
                                let _ = commit.cmr();
                                // satisfying with no witness at all must not panic either
                                let _ = c.satisfy(WitnessValues::default()).map(|s| s.redeem().encode_to_vec());
                            })
                        }));
                        record(if dbg { "instantiate+commit+satisfy(dbg)" } else { "instantiate+commit+satisfy" }, outcome(r));
                    }
                    // missing arguments are an error, never a panic
                    let r = catch_unwind(AssertUnwindSafe(|| tmpl.instantiate(Arguments::default(), false).map(|_| ())));
                    record("instantiate(no arguments)", outcome(r));
                }
                Ok(Err(e)) => record("new", ("err".into(), e)),
                Err(p) => record("new", ("panic".into(), panic_message(p))),
            }
        }
        "witmod" => {
            let r = catch_unwind(AssertUnwindSafe(|| WitnessValues::parse_from_str(&src).map(|m| m.to_string()).map_err(|e| e.to_string())));
            record("WitnessValues::parse_from_str", outcome(r));
            let r = catch_unwind(AssertUnwindSafe(|| Arguments::parse_from_str(&src).map(|m| m.to_string()).map_err(|e| e.to_string())));
            record("Arguments::parse_from_str", outcome(r));
        }
        "json" => {
            let r = catch_unwind(AssertUnwindSafe(|| serde_json::from_str::<WitnessValues>(&src).map(|m| m.to_string()).map_err(|e| e.to_string())));
            record("serde_json::from_str::<WitnessValues>", outcome(r));
            let r = catch_unwind(AssertUnwindSafe(|| serde_json::from_str::<Arguments>(&src).map(|m| m.to_string()).map_err(|e| e.to_string())));
            record("serde_json::from_str::<Arguments>", outcome(r));
        }
        "value" => {
            for ty in value_types() {
                let r = catch_unwind(AssertUnwindSafe(|| Value::parse_from_str(&src, &ty).map(|v| v.to_string()).map_err(|e| e.to_string())));
                let o = outcome(r);
                if o.0 == "panic" {
                    record(&format!("Value::parse_from_str at {ty}"), o);
                }
            }
            record("Value::parse_from_str (21 types)", ("done".into(), String::new()));
        }
        "type" => {
            let r = catch_unwind(AssertUnwindSafe(|| ResolvedType::parse_from_str(&src).map(|t| t.to_string()).map_err(|e| e.to_string())));
            record("ResolvedType::parse_from_str", outcome(r));
        }
        _ => return Err(format!("unknown entry {entry}")),
    }
    let panics: Vec<&J> = calls.iter().filter(|c| c["outcome"] == "panic").collect();
    Ok(json!({"ok": panics.is_empty(), "src": src, "entry": entry, "calls": calls}))
}
