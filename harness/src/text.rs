//! C15: print / parse round trips of values, types and named maps.

use std::collections::HashMap;

use serde_json::{json, Value as J};
use simfony::parse::ParseFromStr;
use simfony::str::WitnessName;
use simfony::types::ResolvedType;
use simfony::{Arguments, Value, WitnessValues};

use crate::conv::*;

fn strip_ws(s: &str) -> String {
    s.chars().filter(|c| !c.is_whitespace()).collect()
}

/// `{"kind":"type_text","ty":T,"text":tokens}`
pub fn type_text(case: &J) -> R<J> {
    let ty = ty_from_json(&case["ty"])?;
    let printed = ty.to_string();
    let back = ResolvedType::parse_from_str(&printed);
    let round = matches!(&back, Ok(t) if *t == ty);
    // the specification's own concrete syntax of the type must denote the same type
    let spec_text = join_tokens(&case["text"], " ")?;
    let spec_ok = matches!(ResolvedType::parse_from_str(&spec_text), Ok(t) if t == ty);
    Ok(json!({"ok": round && spec_ok, "printed": printed, "round_trip": round, "spec_text_parses": spec_ok,
              "error": back.err().map(|e| e.to_string())}))
}

/// `{"kind":"value_text","ty":T,"v":V,"text":tokens}`
pub fn value_text(case: &J) -> R<J> {
    let ty = ty_from_json(&case["ty"])?;
    let v = val_from_json(&case["v"], &ty)?;
    let printed = v.to_string();
    let back = Value::parse_from_str(&printed, &ty);
    let round = matches!(&back, Ok(b) if *b == v);
    // canonical text of the specification (where it commits to one): informational
    let spec = join_tokens(&case["text"], "")?;
    let canonical = if spec.contains("dec:") { None } else { Some(strip_ws(&spec) == strip_ws(&printed)) };
    // serde: {"value": "..", "type": ".."}
    let js = serde_json::to_string(&WitnessValues::from(HashMap::from([(WitnessName::from_str_unchecked("X"), v.clone())])))
        .map_err(|e| e.to_string())?;
    let js_back = serde_json::from_str::<WitnessValues>(&js);
    let js_round = matches!(&js_back, Ok(m) if m.get(&WitnessName::from_str_unchecked("X")) == Some(&v));
    Ok(json!({"ok": round && js_round, "ty": ty.to_string(), "printed": printed, "round_trip": round, "json_round_trip": js_round,
              "canonical": canonical, "error": back.err().map(|e| e.to_string())}))
}

/// `{"kind":"valmap","entries":[{"n","ty","v"}..]}`
pub fn valmap(case: &J) -> R<J> {
    let entries = case["entries"].as_array().cloned().unwrap_or_default();
    let mut map = HashMap::new();
    let mut rev = HashMap::new();
    for e in &entries {
        map.insert(WitnessName::from_str_unchecked(e["n"].as_str().ok_or("n")?), typed_val_from_json(e)?);
    }
    for e in entries.iter().rev() {
        rev.insert(WitnessName::from_str_unchecked(e["n"].as_str().ok_or("n")?), typed_val_from_json(e)?);
    }
    let mut problems: Vec<String> = vec![];
    let wv = WitnessValues::from(map.clone());
    let args = Arguments::from(map.clone());
    // module syntax
    let text = wv.to_string();
    match WitnessValues::parse_from_str(&text) {
        Ok(b) if b == wv => {}
        Ok(_) => problems.push("witness module round trip gives another map".into()),
        Err(e) => problems.push(format!("printed witness module does not parse: {e}")),
    }
    let atext = args.to_string();
    match Arguments::parse_from_str(&atext) {
        Ok(b) if b == args => {}
        Ok(_) => problems.push("param module round trip gives another map".into()),
        Err(e) => problems.push(format!("printed param module does not parse: {e}")),
    }
    // deterministic, sorted by name
    if WitnessValues::from(rev).to_string() != text {
        problems.push("module text depends on insertion order".into());
    }
    let names: Vec<&str> = text
        .lines()
        .filter_map(|l| l.trim().strip_prefix("const "))
        .filter_map(|l| l.split(':').next())
        .collect();
    let mut sorted = names.clone();
    sorted.sort();
    if names != sorted {
        problems.push(format!("module entries are not sorted by name: {names:?}"));
    }
    if names.len() != entries.len() {
        problems.push("module text does not list every name once".into());
    }
    // JSON syntax
    match serde_json::to_string(&wv) {
        Ok(js) => match serde_json::from_str::<WitnessValues>(&js) {
            Ok(b) if b == wv => {}
            Ok(_) => problems.push("JSON round trip gives another map".into()),
            Err(e) => problems.push(format!("printed JSON does not parse: {e}")),
        },
        Err(e) => problems.push(format!("cannot serialise: {e}")),
    }
    match serde_json::to_string(&args) {
        Ok(js) => match serde_json::from_str::<Arguments>(&js) {
            Ok(b) if b == args => {}
            _ => problems.push("argument JSON round trip fails".into()),
        },
        Err(e) => problems.push(format!("cannot serialise arguments: {e}")),
    }
    // a text that assigns one name twice is rejected (module and JSON)
    if let Some(first) = entries.first() {
        let v = typed_val_from_json(first)?;
        let n = first["n"].as_str().unwrap_or("A");
        let line = format!("    const {n}: {} = {v};\n", v.ty());
        let dup_mod = text.replacen("{\n", &format!("{{\n{line}"), 1);
        if WitnessValues::parse_from_str(&dup_mod).is_ok() {
            problems.push(format!("module assigning `{n}` twice is accepted"));
        }
        // the second assignment at every distance from the first one: in front of and behind all assignments, for every name
        for e in entries.iter() {
            let v = typed_val_from_json(e)?;
            let n = e["n"].as_str().unwrap_or("A");
            let line = format!("    const {n}: {} = {v};\n", v.ty());
            let front = text.replacen("{\n", &format!("{{\n{line}"), 1);
            let back = match text.rfind('}') {
                Some(k) => format!("{}{}{}", &text[..k], line, &text[k..]),
                None => continue,
            };
            for (place, t) in [("in front", front), ("at the end", back)] {
                if WitnessValues::parse_from_str(&t).is_ok() {
                    problems.push(format!("module assigning `{n}` a second time {place} is accepted"));
                }
                if Arguments::parse_from_str(&t.replacen("mod witness", "mod param", 1)).is_ok() {
                    problems.push(format!("argument module assigning `{n}` a second time {place} is accepted"));
                }
            }
        }
        let entry = format!("\"{n}\": {{\"value\": \"{v}\", \"type\": \"{}\"}}", v.ty());
        let dup_js = format!("{{{entry}, {entry}}}");
        if serde_json::from_str::<WitnessValues>(&dup_js).is_ok() {
            problems.push(format!("JSON assigning `{n}` twice is accepted"));
        }
        if serde_json::from_str::<WitnessValues>(&format!("{{{entry}}}")).is_err() {
            problems.push("control: single JSON entry rejected".into());
        }
    }
    Ok(json!({"ok": problems.is_empty(), "module": text, "problems": problems}))
}
