//! Conversions between the specification's JSON encodings (DESIGN.md appendix A) and Simfony's data types.

use std::sync::Arc;

use serde_json::{json, Value as J};
use simfony::num::NonZeroPow2Usize;
use simfony::simplicity;
use simfony::types::{ResolvedType, TypeConstructible, TypeInner, UIntType};
use simfony::value::{UIntValue, Value, ValueConstructible, ValueInner};
use simplicity::types::{CompleteBound, Final};

pub type R<T> = Result<T, String>;

pub fn uint_type(n: u64) -> R<UIntType> {
    Ok(match n {
        1 => UIntType::U1,
        2 => UIntType::U2,
        4 => UIntType::U4,
        8 => UIntType::U8,
        16 => UIntType::U16,
        32 => UIntType::U32,
        64 => UIntType::U64,
        128 => UIntType::U128,
        256 => UIntType::U256,
        _ => return Err(format!("bad int width {n}")),
    })
}

fn arr(j: &J, key: &str) -> R<Vec<J>> {
    j.get(key)
        .and_then(|x| x.as_array())
        .cloned()
        .ok_or_else(|| format!("missing array field {key} in {j}"))
}

fn kind(j: &J) -> R<&str> {
    j.get("k")
        .and_then(|x| x.as_str())
        .ok_or_else(|| format!("missing tag in {j}"))
}

/// Spec type JSON -> resolved type.
pub fn ty_from_json(j: &J) -> R<ResolvedType> {
    Ok(match kind(j)? {
        "bool" => ResolvedType::boolean(),
        "u" => ResolvedType::from(uint_type(j["n"].as_u64().ok_or("n")?)?),
        "tup" => {
            let es = arr(j, "es")?
                .iter()
                .map(ty_from_json)
                .collect::<R<Vec<_>>>()?;
            ResolvedType::tuple(es)
        }
        "arr" => ResolvedType::array(ty_from_json(&j["e"])?, j["n"].as_u64().ok_or("n")? as usize),
        "list" => {
            let b = j["b"].as_u64().ok_or("b")? as usize;
            let b = NonZeroPow2Usize::new(b).ok_or_else(|| format!("bad list bound {b}"))?;
            ResolvedType::list(ty_from_json(&j["e"])?, b)
        }
        "opt" => ResolvedType::option(ty_from_json(&j["e"])?),
        "either" => ResolvedType::either(ty_from_json(&j["l"])?, ty_from_json(&j["r"])?),
        k => return Err(format!("unknown type tag {k}")),
    })
}

/// Resolved type -> spec type JSON.
pub fn ty_to_json(ty: &ResolvedType) -> J {
    match ty.as_inner() {
        TypeInner::Boolean => json!({"k":"bool"}),
        TypeInner::UInt(u) => json!({"k":"u","n": u.bit_width().get()}),
        TypeInner::Tuple(es) => {
            json!({"k":"tup","es": es.iter().map(|e| ty_to_json(e)).collect::<Vec<_>>()})
        }
        TypeInner::Array(e, n) => json!({"k":"arr","e": ty_to_json(e), "n": n}),
        TypeInner::List(e, b) => json!({"k":"list","e": ty_to_json(e), "b": b.get()}),
        TypeInner::Option(e) => json!({"k":"opt","e": ty_to_json(e)}),
        TypeInner::Either(l, r) => json!({"k":"either","l": ty_to_json(l), "r": ty_to_json(r)}),
        _ => json!({"k":"unknown"}),
    }
}

fn bits_of(j: &J) -> R<Vec<u8>> {
    arr(j, "bits")?
        .iter()
        .map(|b| b.as_u64().map(|x| x as u8).ok_or_else(|| "bit".to_string()))
        .collect()
}

fn uint_from_bits(bits: &[u8], ty: UIntType) -> R<UIntValue> {
    let n = ty.bit_width().get();
    if bits.len() != n {
        return Err(format!("expected {n} bits, got {}", bits.len()));
    }
    let mut bytes = vec![0u8; (n + 7) / 8];
    let pad = bytes.len() * 8 - n;
    for (i, b) in bits.iter().enumerate() {
        let pos = pad + i;
        if *b != 0 {
            bytes[pos / 8] |= 1 << (7 - pos % 8);
        }
    }
    Ok(match ty {
        UIntType::U1 => UIntValue::U1(bytes[0]),
        UIntType::U2 => UIntValue::U2(bytes[0]),
        UIntType::U4 => UIntValue::U4(bytes[0]),
        _ => UIntValue::try_from(bytes.as_slice()).map_err(|e| e.to_string())?,
    })
}

/// Spec value JSON (untyped) at a resolved type -> Simfony value.
pub fn val_from_json(j: &J, ty: &ResolvedType) -> R<Value> {
    Ok(match (kind(j)?, ty.as_inner()) {
        ("vbool", TypeInner::Boolean) => Value::from(j["bv"].as_bool().ok_or("v")?),
        ("vu", TypeInner::UInt(u)) => Value::from(uint_from_bits(&bits_of(j)?, *u)?),
        ("vtup", TypeInner::Tuple(tys)) => {
            let es = arr(j, "es")?;
            if es.len() != tys.len() {
                return Err("tuple arity".into());
            }
            Value::tuple(
                es.iter()
                    .zip(tys.iter())
                    .map(|(e, t)| val_from_json(e, t))
                    .collect::<R<Vec<_>>>()?,
            )
        }
        ("varr", TypeInner::Array(te, n)) => {
            let es = arr(j, "es")?;
            if es.len() != *n {
                return Err("array size".into());
            }
            Value::array(
                es.iter().map(|e| val_from_json(e, te)).collect::<R<Vec<_>>>()?,
                te.as_ref().clone(),
            )
        }
        ("vlist", TypeInner::List(te, b)) => {
            let es = arr(j, "es")?;
            if es.len() >= b.get() {
                return Err("list length".into());
            }
            Value::list(
                es.iter().map(|e| val_from_json(e, te)).collect::<R<Vec<_>>>()?,
                te.as_ref().clone(),
                *b,
            )
        }
        ("vnone", TypeInner::Option(te)) => Value::none(te.as_ref().clone()),
        ("vsome", TypeInner::Option(te)) => Value::some(val_from_json(&j["v"], te)?),
        ("vleft", TypeInner::Either(tl, tr)) => {
            Value::left(val_from_json(&j["v"], tl)?, tr.as_ref().clone())
        }
        ("vright", TypeInner::Either(tl, tr)) => {
            Value::right(tl.as_ref().clone(), val_from_json(&j["v"], tr)?)
        }
        (k, _) => return Err(format!("value tag {k} does not fit type {ty}")),
    })
}

fn uint_bits(u: &UIntValue) -> Vec<u8> {
    let (bytes, n): (Vec<u8>, usize) = match u {
        UIntValue::U1(x) => (vec![*x], 1),
        UIntValue::U2(x) => (vec![*x], 2),
        UIntValue::U4(x) => (vec![*x], 4),
        UIntValue::U8(x) => (vec![*x], 8),
        UIntValue::U16(x) => (x.to_be_bytes().to_vec(), 16),
        UIntValue::U32(x) => (x.to_be_bytes().to_vec(), 32),
        UIntValue::U64(x) => (x.to_be_bytes().to_vec(), 64),
        UIntValue::U128(x) => (x.to_be_bytes().to_vec(), 128),
        UIntValue::U256(x) => (x.as_ref().to_vec(), 256),
    };
    let total = bytes.len() * 8;
    (total - n..total)
        .map(|pos| (bytes[pos / 8] >> (7 - pos % 8)) & 1)
        .collect()
}

/// Simfony value -> spec value JSON (untyped).
pub fn val_to_json(v: &Value) -> J {
    match v.inner() {
        ValueInner::Boolean(b) => json!({"k":"vbool","bv": b}),
        ValueInner::UInt(u) => json!({"k":"vu","bits": uint_bits(u)}),
        ValueInner::Tuple(es) => json!({"k":"vtup","es": es.iter().map(val_to_json).collect::<Vec<_>>()}),
        ValueInner::Array(es) => json!({"k":"varr","es": es.iter().map(val_to_json).collect::<Vec<_>>()}),
        ValueInner::List(es, _) => json!({"k":"vlist","es": es.iter().map(val_to_json).collect::<Vec<_>>()}),
        ValueInner::Option(None) => json!({"k":"vnone"}),
        ValueInner::Option(Some(x)) => json!({"k":"vsome","v": val_to_json(x)}),
        ValueInner::Either(either::Either::Left(x)) => json!({"k":"vleft","v": val_to_json(x)}),
        ValueInner::Either(either::Either::Right(x)) => json!({"k":"vright","v": val_to_json(x)}),
    }
}

/// `{"ty": T, "v": V}` -> typed value.
pub fn typed_val_from_json(j: &J) -> R<Value> {
    let ty = ty_from_json(j.get("ty").ok_or("typed value without ty")?)?;
    val_from_json(j.get("v").ok_or("typed value without v")?, &ty)
}

/// Pre-order walk of a finalized Simplicity type: 0 = unit, 1 = sum, 2 = product.
pub fn final_preorder(f: &Arc<Final>) -> Vec<u8> {
    let mut out = Vec::new();
    let mut stack = vec![f.clone()];
    while let Some(top) = stack.pop() {
        match top.bound() {
            CompleteBound::Unit => out.push(0),
            CompleteBound::Sum(l, r) => {
                out.push(1);
                stack.push(r.clone());
                stack.push(l.clone());
            }
            CompleteBound::Product(l, r) => {
                out.push(2);
                stack.push(r.clone());
                stack.push(l.clone());
            }
        }
    }
    out
}

/// Compact bit encoding of a Simplicity value.
pub fn compact_bits(v: &simplicity::Value) -> Vec<u8> {
    v.iter_compact().map(u8::from).collect()
}

/// Join the spec's token list: a token is a string or a list of pieces glued together.
pub fn join_tokens(toks: &J, sep: &str) -> R<String> {
    let list = toks.as_array().ok_or("tokens must be an array")?;
    let mut out = String::new();
    for (i, t) in list.iter().enumerate() {
        let mut tok = String::new();
        push_token(&mut tok, t)?;
        if i > 0 {
            if sep == "tight" {
                // no white space except where two word-like tokens would merge
                let wordy = |c: char| c.is_ascii_alphanumeric() || c == '_';
                let a = out.chars().last().map(wordy).unwrap_or(false);
                let b = tok.chars().next().map(wordy).unwrap_or(false);
                if a && b {
                    out.push(' ');
                }
            } else {
                out.push_str(sep);
            }
        }
        out.push_str(&tok);
    }
    Ok(out)
}

fn push_token(out: &mut String, t: &J) -> R<()> {
    match t {
        J::String(s) => out.push_str(s),
        J::Number(n) => out.push_str(&n.to_string()),
        J::Array(ps) => {
            for p in ps {
                push_token(out, p)?;
            }
        }
        _ => return Err(format!("bad token {t}")),
    }
    Ok(())
}

/// Aliased type (parse-tree level) -> spec type JSON (aliases kept by name).
pub fn aliased_to_json(ty: &simfony::types::AliasedType) -> J {
    use simfony::types::TypeDeconstructible;
    if let Some(name) = ty.as_alias() {
        return json!({"k":"alias","name": name.as_inner()});
    }
    if let Some(b) = ty.as_builtin() {
        return json!({"k":"builtin","name": b.to_string()});
    }
    if ty.is_boolean() {
        return json!({"k":"bool"});
    }
    if let Some(u) = ty.as_integer() {
        return json!({"k":"u","n": u.bit_width().get()});
    }
    if let Some(es) = ty.as_tuple() {
        return json!({"k":"tup","es": es.iter().map(|e| aliased_to_json(e)).collect::<Vec<_>>()});
    }
    if let Some((e, n)) = ty.as_array() {
        return json!({"k":"arr","e": aliased_to_json(e), "n": n});
    }
    if let Some((e, b)) = ty.as_list() {
        return json!({"k":"list","e": aliased_to_json(e), "b": b.get()});
    }
    if let Some(e) = ty.as_option() {
        return json!({"k":"opt","e": aliased_to_json(e)});
    }
    if let Some((l, r)) = ty.as_either() {
        return json!({"k":"either","l": aliased_to_json(l), "r": aliased_to_json(r)});
    }
    json!({"k":"unknown"})
}
