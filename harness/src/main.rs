//! `vh` - replay harness: steps the real Simfony library through behaviours emitted by the TLA+ specification
//! and records what it observes.  It never judges beyond comparing with the expectation carried by the case.

mod conv;
mod debugsym;
mod jets;
mod layout;
mod prog;
mod text;
mod total;

use std::io::{BufRead, BufReader, BufWriter, Write};
use std::panic::{catch_unwind, AssertUnwindSafe};
use std::sync::atomic::{AtomicUsize, Ordering};
use std::sync::{Arc, Mutex};

use serde_json::{json, Value as J};

pub fn panic_message(e: Box<dyn std::any::Any + Send>) -> String {
    if let Some(s) = e.downcast_ref::<&str>() {
        s.to_string()
    } else if let Some(s) = e.downcast_ref::<String>() {
        s.clone()
    } else {
        "panic".to_string()
    }
}

/// Run one case. The result always carries `id`, `kind`, `ok`.
fn handle(case: &J) -> J {
    let kind = case["kind"].as_str().unwrap_or("").to_string();
    let res = catch_unwind(AssertUnwindSafe(|| match kind.as_str() {
        "layout_type" => layout::layout_type(case),
        "layout_val" => layout::layout_val(case),
        "prog" => prog::prog(case),
        "total" => total::total(case),
        "type_text" => text::type_text(case),
        "value_text" => text::value_text(case),
        "valmap" => text::valmap(case),
        _ => Err(format!("unknown case kind {kind}")),
    }));
    let mut out = match res {
        Ok(Ok(j)) => j,
        Ok(Err(e)) => json!({"ok": false, "tool_error": e}),
        Err(p) => json!({"ok": false, "panic": panic_message(p)}),
    };
    out["id"] = case["id"].clone();
    out["kind"] = J::String(kind);
    out
}

fn replay(input: &str, output: &str, threads: usize) -> Result<(), String> {
    let f = std::fs::File::open(input).map_err(|e| format!("{input}: {e}"))?;
    let cases: Vec<String> = BufReader::new(f)
        .lines()
        .map(|l| l.map_err(|e| e.to_string()))
        .collect::<Result<_, _>>()?;
    let cases = Arc::new(cases);
    let next = Arc::new(AtomicUsize::new(0));
    let out = Arc::new(Mutex::new(BufWriter::new(
        std::fs::File::create(output).map_err(|e| format!("{output}: {e}"))?,
    )));
    let mut handles = vec![];
    for _ in 0..threads {
        let cases = Arc::clone(&cases);
        let next = Arc::clone(&next);
        let out = Arc::clone(&out);
        let h = std::thread::Builder::new()
            .stack_size(256 << 20)
            .spawn(move || loop {
                let i = next.fetch_add(1, Ordering::SeqCst);
                if i >= cases.len() {
                    break;
                }
                let line = cases[i].trim();
                if line.is_empty() {
                    continue;
                }
                let res = match serde_json::from_str::<J>(line) {
                    Ok(case) => handle(&case),
                    Err(e) => json!({"ok": false, "tool_error": format!("bad case json: {e}"), "line": i}),
                };
                let mut w = out.lock().unwrap();
                writeln!(w, "{res}").unwrap();
            })
            .map_err(|e| e.to_string())?;
        handles.push(h);
    }
    for h in handles {
        h.join().map_err(|_| "worker thread died".to_string())?;
    }
    out.lock().unwrap().flush().map_err(|e| e.to_string())?;
    Ok(())
}

fn main() {
    // Panics of the code under test are data; keep stderr quiet.
    std::panic::set_hook(Box::new(|_| {}));
    let args: Vec<String> = std::env::args().collect();
    let r = match args.get(1).map(String::as_str) {
        Some("replay") if args.len() >= 4 => {
            let threads = args
                .get(4)
                .and_then(|s| s.parse().ok())
                .unwrap_or(12usize);
            replay(&args[2], &args[3], threads)
        }
        Some("jets") => {
            for j in jets::dump() {
                println!("{j}");
            }
            Ok(())
        }
        // vh commit <list-file> <repeat>: for every line `<debug 0|1>\t<path>` compile the file `repeat` times in this
        // process; print one JSON line per input: distinct encodings / CMRs seen, or the error
        Some("commit") if args.len() >= 4 => {
            let list = std::fs::read_to_string(&args[2]).unwrap_or_default();
            let repeat: usize = args[3].parse().unwrap_or(3);
            for line in list.lines() {
                let Some((dbg, path)) = line.split_once('\t') else { continue };
                let text = std::fs::read_to_string(path).unwrap_or_default();
                // arguments of a template: sidecar file <path>.args.json (same format as the `args` of a prog case)
                let args_json: Option<serde_json::Value> = std::fs::read_to_string(format!("{path}.args.json"))
                    .ok()
                    .and_then(|t| serde_json::from_str(&t).ok());
                let mut encs: Vec<String> = vec![];
                let mut cmrs: Vec<String> = vec![];
                let mut errs: Vec<String> = vec![];
                for _ in 0..repeat {
                    let r = catch_unwind(AssertUnwindSafe(|| {
                        let arguments = match &args_json {
                            Some(j) => prog::args_from_json(j).unwrap_or_default(),
                            None => simfony::Arguments::default(),
                        };
                        simfony::CompiledProgram::new(text.as_str(), arguments, dbg == "1").map(|c| {
                            let commit = c.commit();
                            let bytes = commit.encode_to_vec();
                            (bytes.iter().map(|b| format!("{b:02x}")).collect::<String>(), commit.cmr().to_string())
                        })
                    }));
                    match r {
                        Ok(Ok((e, c))) => {
                            if !encs.contains(&e) {
                                encs.push(e);
                            }
                            if !cmrs.contains(&c) {
                                cmrs.push(c);
                            }
                        }
                        Ok(Err(e)) => {
                            if !errs.contains(&e) {
                                errs.push(e);
                            }
                        }
                        Err(p) => errs.push(format!("panic:{}", panic_message(p))),
                    }
                }
                println!("{}", json!({"path": path, "dbg": dbg == "1", "enc": encs, "cmr": cmrs, "err": errs}));
            }
            Ok(())
        }
        _ => Err("usage: vh replay <cases.ndjson> <results.ndjson> [threads]".to_string()),
    };
    if let Err(e) = r {
        eprintln!("vh: {e}");
        std::process::exit(2);
    }
}
