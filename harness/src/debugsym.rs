//! C14: debug markers embedded in a debug build resolve to the call sites the specification predicts.

use std::collections::HashMap;

use serde_json::{json, Value as J};
use simfony::debug::{FallibleCallName, TrackedCallName};
use simfony::either::Either;
use simfony::simplicity::dag::{DagLike, InternalSharing};
use simfony::simplicity::hashes::{sha256, Hash, HashEngine};
use simfony::simplicity::jet::Elements;
use simfony::simplicity::node::Inner;
use simfony::simplicity::{Cmr, CommitNode};
use simfony::value::StructuralValue;
use simfony::CompiledProgram;

use crate::conv::*;

/// The marker of tracked call number `i` (tagged hash, as documented in src/debug.rs).
pub fn marker_cmr(i: u32) -> Cmr {
    let tag_hash = sha256::Hash::hash(b"simfony\x1fdebug\x1f");
    let mut engine = sha256::Hash::engine();
    engine.input(tag_hash.as_ref());
    engine.input(tag_hash.as_ref());
    engine.input(i.to_be_bytes().as_ref());
    Cmr::from_byte_array(sha256::Hash::from_engine(engine).to_byte_array())
}

fn strip_ws(s: &str) -> String {
    s.chars().filter(|c| !c.is_whitespace()).collect()
}

fn kind_of(name: &TrackedCallName) -> &'static str {
    match name {
        TrackedCallName::Assert => "assert",
        TrackedCallName::Panic => "panic",
        TrackedCallName::Jet => "jet",
        TrackedCallName::UnwrapLeft(..) => "unwrap_left",
        TrackedCallName::UnwrapRight(..) => "unwrap_right",
        TrackedCallName::Unwrap => "unwrap",
        TrackedCallName::Debug(..) => "dbg",
    }
}

/// Hidden CMRs of all `assertl` nodes of the program that are debug markers, with their number.
pub fn markers_in(commit: &CommitNode<Elements>) -> Vec<(u32, Cmr)> {
    let table: HashMap<Cmr, u32> = (0..2048u32).map(|i| (marker_cmr(i), i)).collect();
    let mut found: Vec<(u32, Cmr)> = vec![];
    for item in commit.post_order_iter::<InternalSharing>() {
        if let Inner::AssertL(_, cmr) = item.node.inner() {
            if let Some(i) = table.get(cmr) {
                if !found.iter().any(|(j, _)| j == i) {
                    found.push((*i, *cmr));
                }
            }
        }
    }
    found.sort();
    found
}

/// Markers of a debug build: the hidden CMRs of `assertl` nodes that `debug_symbols()` knows (whatever formula the
/// library derives them from) plus those that follow the formula of the pinned tree (so that an embedded marker
/// WITHOUT an entry is still seen). The number is the call id where the formula gives one, else 100000 + position.
pub fn markers_of(commit: &CommitNode<Elements>, symbols: &simfony::debug::DebugSymbols) -> Vec<(u32, Cmr)> {
    let table: HashMap<Cmr, u32> = (0..2048u32).map(|i| (marker_cmr(i), i)).collect();
    let mut found: Vec<(u32, Cmr)> = vec![];
    let mut pos = 0u32;
    for item in commit.post_order_iter::<InternalSharing>() {
        if let Inner::AssertL(_, cmr) = item.node.inner() {
            let num = match table.get(cmr) {
                Some(i) => Some(*i),
                None if symbols.get(cmr).is_some() => Some(100_000 + pos),
                None => None,
            };
            if let Some(i) = num {
                if !found.iter().any(|(_, c)| c == cmr) {
                    found.push((i, *cmr));
                    pos += 1;
                }
            }
        }
    }
    found.sort();
    found
}

/// `sites`: predicted `[{"kind","text":tokens,"ty","samples":[values]}]`
pub fn check(compiled: &CompiledProgram, commit: &CommitNode<Elements>, sites: &[J], issues: &mut Vec<J>) -> R<usize> {
    let symbols = compiled.debug_symbols();
    let markers = markers_of(commit, &symbols);
    let mut predicted: Vec<(String, String, &J)> = vec![];
    for s in sites {
        let text = strip_ws(&join_tokens(&s["text"], "")?);
        predicted.push((s["kind"].as_str().unwrap_or("").to_string(), text, s));
    }
    // resolved markers: (number, kind, normalised text, tracked call)
    let mut resolved = vec![];
    for (i, cmr) in &markers {
        match symbols.get(cmr) {
            None => issues.push(json!({"at":"debug","what":"marker_unresolved","msg": format!("marker {i} is embedded but debug_symbols() has no entry")})),
            Some(tc) => resolved.push((*i, kind_of(tc.name()), strip_ws(tc.text()), tc)),
        }
    }
    // A marker may stand for a site when kind and text agree. For dbg! the library shows the argument when the
    // call is written `dbg!(..)` and the whole call otherwise: both are the source text of that call.
    let compatible = |m: &(u32, &str, String, &simfony::debug::TrackedCall), p: &(String, String, &J)| {
        p.0 == m.1 && (p.1 == m.2 || (m.1 == "dbg" && format!("dbg!({})", p.1) == m.2))
    };
    // maximum bipartite matching markers -> sites (Kuhn): "exactly one call site" per marker, distinct sites
    let mut site_of: Vec<Option<usize>> = vec![None; predicted.len()];
    fn try_assign(m: usize, adj: &Vec<Vec<usize>>, seen: &mut Vec<bool>, site_of: &mut Vec<Option<usize>>) -> bool {
        for &s in &adj[m] {
            if seen[s] {
                continue;
            }
            seen[s] = true;
            if site_of[s].is_none() || try_assign(site_of[s].unwrap(), adj, seen, site_of) {
                site_of[s] = Some(m);
                return true;
            }
        }
        false
    }
    // problems of reconstructing the sample values of site p through the tracked call of marker m
    let sample_problems = |m: &(u32, &str, String, &simfony::debug::TrackedCall), p: &(String, String, &J)| -> R<Vec<(String, String)>> {
        let (i, kind, text, tc) = m;
        let mut out = vec![];
        let Some(samples) = p.2["samples"].as_array() else { return Ok(out) };
        if samples.is_empty() {
            return Ok(out);
        }
        let ty = ty_from_json(&p.2["ty"])?;
        for sj in samples {
            let v = val_from_json(sj, &ty)?;
            let sv = StructuralValue::from(&v);
            // a panic inside the reconstruction is an outcome of the debug-symbol machinery (C14), not of a text entry point
            let mapped = match std::panic::catch_unwind(std::panic::AssertUnwindSafe(|| tc.map_value(&sv))) {
                Ok(m) => m,
                Err(pn) => {
                    let msg = pn.downcast_ref::<String>().cloned()
                        .or_else(|| pn.downcast_ref::<&str>().map(|s| s.to_string()))
                        .unwrap_or_default();
                    out.push(("map_value_panic".to_string(),
                        format!("marker {i} ({kind} `{}`): reconstructing value {v} panicked: {msg}", tc.text())));
                    continue;
                }
            };
            let ok = match mapped {
                Some(Either::Right(dv)) => *kind == "dbg" && dv.value() == &v && &strip_ws(dv.text()) == text,
                Some(Either::Left(fc)) => match fc.name() {
                    FallibleCallName::UnwrapLeft(x) => *kind == "unwrap_left" && x == &v,
                    FallibleCallName::UnwrapRight(x) => *kind == "unwrap_right" && x == &v,
                    _ => false,
                },
                None => false,
            };
            if !ok {
                out.push(("map_value".to_string(),
                    format!("marker {i} ({kind} `{}`): value {v} is not reconstructed from its Simplicity form", tc.text())));
            }
        }
        Ok(out)
    };
    let adj: Vec<Vec<usize>> = resolved
        .iter()
        .map(|m| (0..predicted.len()).filter(|&s| compatible(m, &predicted[s])).collect())
        .collect();
    // Two call sites may have the same text and kind but arguments of different types (`unwrap_right::<u1>(Left(1))` at
    // two places): first look for an assignment in which every marker also reconstructs the sample values of its site;
    // only if there is none, fall back to the assignment by text and kind and report what does not reconstruct.
    let mut strict_adj: Vec<Vec<usize>> = vec![];
    for (mi, m) in resolved.iter().enumerate() {
        let mut row = vec![];
        for &s in &adj[mi] {
            if sample_problems(m, &predicted[s])?.is_empty() {
                row.push(s);
            }
        }
        strict_adj.push(row);
    }
    let mut strict_site_of: Vec<Option<usize>> = vec![None; predicted.len()];
    let mut strict_all = true;
    for m in 0..resolved.len() {
        let mut seen = vec![false; predicted.len()];
        if !try_assign(m, &strict_adj, &mut seen, &mut strict_site_of) {
            strict_all = false;
        }
    }
    if strict_all && strict_site_of.iter().all(|o| o.is_some()) {
        return Ok(markers.len());
    }
    let mut matched = vec![false; resolved.len()];
    for m in 0..resolved.len() {
        let mut seen = vec![false; predicted.len()];
        matched[m] = try_assign(m, &adj, &mut seen, &mut site_of);
    }
    for (m, ok) in matched.iter().enumerate() {
        if !ok {
            let (i, kind, _, tc) = &resolved[m];
            issues.push(json!({"at":"debug","what":"marker_wrong_site",
                "msg": format!("marker {i} resolves to {kind} `{}` which is not the text of a (further) call site of that kind", tc.text())}));
        }
    }
    for (s, owner) in site_of.iter().enumerate() {
        let p = &predicted[s];
        match owner {
            None => issues.push(json!({"at":"debug","what":"site_without_marker",
                "msg": format!("{} call `{}` has no marker in the debug build", p.0, p.1)})),
            Some(m) => {
                for (what, msg) in sample_problems(&resolved[*m], p)? {
                    issues.push(json!({"at":"debug","what": what, "msg": msg}));
                }
            }
        }
    }
    Ok(markers.len())
}
