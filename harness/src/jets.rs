//! Dump of the jet signature table of the current tree (C13).
use serde_json::{json, Value as J};
use simfony::simplicity::jet::{Elements, Jet};

use crate::conv::*;

pub fn dump() -> Vec<J> {
    let mut out = vec![];
    for jet in Elements::ALL.iter() {
        let args: Vec<J> = simfony::jet::source_type(*jet).iter().map(aliased_to_json).collect();
        let ret = aliased_to_json(&simfony::jet::target_type(*jet));
        let src = final_preorder(&jet.source_ty().to_final());
        let tgt = final_preorder(&jet.target_ty().to_final());
        out.push(json!({"name": jet.to_string(), "args": args, "ret": ret, "src": src, "tgt": tgt}));
    }
    out
}
