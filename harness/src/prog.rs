//! Lifecycle replay of a program behaviour emitted by the specification:
//! new -> parameters -> instantiate -> commit -> (satisfy -> encode -> decode -> exec)* .
//! Observations are recorded per step; the driver maps them to properties.

use std::collections::HashMap;
use std::panic::{catch_unwind, AssertUnwindSafe};
use std::sync::Arc;

use serde_json::{json, Value as J};
use simfony::simplicity::jet::elements::ElementsEnv;
use simfony::simplicity::jet::Elements;
use simfony::simplicity::{BitIter, BitMachine, RedeemNode};
use simfony::str::WitnessName;
use simfony::{elements, Arguments, CompiledProgram, TemplateProgram, Value, WitnessValues};

use crate::conv::*;
use crate::panic_message;

pub type Env = ElementsEnv<Arc<elements::Transaction>>;

/// `{"lock_height":n}` / `{"lock_time":n}` / `{"sequence":n}` (raw consensus u32) -> environment
pub fn env_from_json(j: &J) -> Env {
    let mut lock_time = elements::LockTime::ZERO;
    let mut sequence = elements::Sequence::MAX;
    // numbers, or big-endian arrays of 32 bits (TLC integers are 32-bit signed)
    let num = |v: &J| -> Option<u32> {
        match v {
            J::Number(n) => n.as_u64().map(|x| x as u32),
            J::Array(bits) => Some(bits.iter().fold(0u32, |acc, b| (acc << 1) | (b.as_u64().unwrap_or(0) as u32 & 1))),
            _ => None,
        }
    };
    if let Some(h) = j.get("lock").and_then(num) {
        lock_time = elements::LockTime::from_consensus(h);
    }
    if let Some(s) = j.get("seq").and_then(num) {
        sequence = elements::Sequence::from_consensus(s);
    }
    simfony::dummy_env::dummy_with(lock_time, sequence, false)
}

pub fn named_values(names: &[J], types: &[J], vals: &[J]) -> R<HashMap<WitnessName, Value>> {
    let mut map = HashMap::new();
    for ((n, t), v) in names.iter().zip(types.iter()).zip(vals.iter()) {
        let ty = ty_from_json(t)?;
        let val = val_from_json(v, &ty)?;
        map.insert(WitnessName::from_str_unchecked(n.as_str().ok_or("name")?), val);
    }
    Ok(map)
}

/// argument list `[[name, {"ty":T,"v":V}], ..]`
pub fn args_from_json(j: &J) -> R<Arguments> {
    let mut map = HashMap::new();
    if let Some(list) = j.as_array() {
        for item in list {
            let name = item[0].as_str().ok_or("arg name")?;
            map.insert(WitnessName::from_str_unchecked(name), typed_val_from_json(&item[1])?);
        }
    }
    Ok(Arguments::from(map))
}

/// entries `[{"n":name,"ty":T,"v":V}, ..]` -> map of typed values
pub fn entries_from_json(j: &J) -> R<HashMap<WitnessName, Value>> {
    let mut map = HashMap::new();
    if let Some(list) = j.as_array() {
        for e in list {
            let name = e["n"].as_str().ok_or("entry name")?;
            map.insert(WitnessName::from_str_unchecked(name), typed_val_from_json(e)?);
        }
    }
    Ok(map)
}

pub struct RunResult {
    pub satisfy: Result<(), String>,
    pub cmr_eq: bool,
    pub decode: Result<(), String>,
    pub dec_cmr_eq: bool,
    /// "ok" | "fail" | "panic:<msg>" | "limit:<msg>"
    pub exec: String,
    /// execution of the not re-decoded program, for diagnosis
    pub exec_direct: String,
}

fn exec_node(node: &RedeemNode<Elements>, env: &Env) -> String {
    let r = catch_unwind(AssertUnwindSafe(|| match BitMachine::for_program(node) {
        Err(e) => format!("limit:{e}"),
        Ok(mut mac) => match mac.exec(node, env) {
            Ok(_) => "ok".to_string(),
            Err(_) => "fail".to_string(),
        },
    }));
    match r {
        Ok(s) => s,
        Err(p) => format!("panic:{}", panic_message(p)),
    }
}

/// satisfy with the given witness map, then encode / decode / execute.
pub fn run_point(compiled: &CompiledProgram, commit_cmr: &[u8], wit: WitnessValues, env: &Env, prune: bool) -> RunResult {
    let mut rr = RunResult {
        satisfy: Ok(()),
        cmr_eq: false,
        decode: Err("not reached".into()),
        dec_cmr_eq: false,
        exec: "not reached".into(),
        exec_direct: "not reached".into(),
    };
    let sat = catch_unwind(AssertUnwindSafe(|| {
        if prune {
            compiled.satisfy_with_env(wit, Some(env))
        } else {
            compiled.satisfy(wit)
        }
    }));
    let sat = match sat {
        Ok(Ok(s)) => s,
        Ok(Err(e)) => {
            rr.satisfy = Err(e);
            return rr;
        }
        Err(p) => {
            rr.satisfy = Err(format!("panic:{}", panic_message(p)));
            return rr;
        }
    };
    let redeem = sat.redeem();
    rr.cmr_eq = redeem.cmr().as_ref() == commit_cmr;
    rr.exec_direct = exec_node(redeem, env);
    let enc = catch_unwind(AssertUnwindSafe(|| redeem.encode_to_vec()));
    let (pb, wb) = match enc {
        Ok(x) => x,
        Err(p) => {
            rr.decode = Err(format!("encode panic:{}", panic_message(p)));
            rr.exec = rr.exec_direct.clone();
            return rr;
        }
    };
    let dec = catch_unwind(AssertUnwindSafe(|| {
        RedeemNode::<Elements>::decode(BitIter::from(pb.into_iter()), BitIter::from(wb.into_iter()))
    }));
    match dec {
        Ok(Ok(node)) => {
            rr.decode = Ok(());
            rr.dec_cmr_eq = node.cmr().as_ref() == commit_cmr;
            rr.exec = exec_node(&node, env);
        }
        Ok(Err(e)) => {
            rr.decode = Err(e.to_string());
            rr.exec = rr.exec_direct.clone();
        }
        Err(p) => {
            rr.decode = Err(format!("panic:{}", panic_message(p)));
            rr.exec = rr.exec_direct.clone();
        }
    }
    rr
}

fn verdict_of(exec: &str) -> Option<bool> {
    match exec {
        "ok" => Some(true),
        "fail" => Some(false),
        _ => None,
    }
}

/// kind = "prog"
pub fn prog(case: &J) -> R<J> {
    let mut out = prog_once(case, None)?;
    // C16: print the parse tree, parse the printed text, and put the printed text through the same lifecycle
    if case.get("roundtrip").and_then(|b| b.as_bool()) == Some(true) {
        let src = out["src"].as_str().unwrap_or("").to_string();
        let mut extra: Vec<J> = vec![];
        let parsed = catch_unwind(AssertUnwindSafe(|| {
            <simfony::parse::Program as simfony::parse::ParseFromStr>::parse_from_str(&src)
        }));
        match parsed {
            Err(p) => extra.push(json!({"at":"roundtrip","what":"parse_panic","msg": panic_message(p)})),
            Ok(Err(_)) => {} // not parseable: nothing to print
            Ok(Ok(tree)) => {
                let printed = tree.to_string();
                match catch_unwind(AssertUnwindSafe(|| {
                    <simfony::parse::Program as simfony::parse::ParseFromStr>::parse_from_str(&printed)
                })) {
                    Ok(Ok(t2)) if t2 == tree => {}
                    Ok(Ok(_)) => extra.push(json!({"at":"roundtrip","what":"tree_differs","msg": "parse(print(tree)) is another tree", "printed": printed})),
                    Ok(Err(e)) => extra.push(json!({"at":"roundtrip","what":"printed_does_not_parse","msg": e.to_string(), "printed": printed})),
                    Err(p) => extra.push(json!({"at":"roundtrip","what":"parse_panic","msg": panic_message(p), "printed": printed})),
                }
                let second = prog_once(case, Some(printed.clone()))?;
                if second["new"] != out["new"] {
                    extra.push(json!({"at":"roundtrip","what":"acceptance_differs",
                        "msg": format!("original: {}, printed: {} ({})", out["new"], second["new"], second["new_msg"].as_str().unwrap_or("")), "printed": printed}));
                }
                // differences of the printed program that the original does not show
                let orig: Vec<String> = out["issues"].as_array().map(|a| a.iter().map(|i| format!("{}:{}:{}:{}", i["at"], i["what"], i["point"], i["dbg"])).collect()).unwrap_or_default();
                if let Some(list) = second["issues"].as_array() {
                    for i in list {
                        let key = format!("{}:{}:{}:{}", i["at"], i["what"], i["point"], i["dbg"]);
                        if !orig.contains(&key) {
                            extra.push(json!({"at":"roundtrip","what": format!("{}/{}", i["at"].as_str().unwrap_or(""), i["what"].as_str().unwrap_or("")),
                                "msg": i["msg"], "printed": printed}));
                        }
                    }
                }
                out["runs"] = json!(out["runs"].as_u64().unwrap_or(0) + second["runs"].as_u64().unwrap_or(0));
            }
        }
        if !extra.is_empty() {
            let mut all = out["issues"].as_array().cloned().unwrap_or_default();
            all.extend(extra);
            out["issues"] = json!(all);
            out["ok"] = json!(false);
        }
    }
    Ok(out)
}

fn prog_once(case: &J, src_override: Option<String>) -> R<J> {
    let sep = case.get("sep").and_then(|s| s.as_str()).unwrap_or(" ");
    let src = match (src_override, case.get("src").and_then(|s| s.as_str())) {
        (Some(s), _) => s,
        (None, Some(s)) => s.to_string(),
        (None, None) => {
            // "lead" / "trail": text in front of the first / behind the last token (blank lines, a final comment ...)
            let mut t = join_tokens(&case["tokens"], sep)?;
            if let Some(tr) = case.get("trail").and_then(|s| s.as_str()) {
                t.push_str(tr);
            }
            if let Some(ld) = case.get("lead").and_then(|s| s.as_str()) {
                t.insert_str(0, ld);
            }
            t
        }
    };
    let accept = case["accept"].as_bool();
    let mut issues: Vec<J> = vec![];
    let mut out = json!({"src": src});

    // -- new (with the verification hooks recording, if asked for)
    let want_trace = case.get("trace").and_then(|b| b.as_bool()) == Some(true);
    if want_trace {
        simfony::verif::start();
    }
    let tmpl = catch_unwind(AssertUnwindSafe(|| TemplateProgram::new(src.as_str())));
    let mut trace: Vec<String> = if want_trace { simfony::verif::take() } else { vec![] };
    if want_trace {
        out["trace"] = json!(trace);
    }
    let tmpl = match tmpl {
        Err(p) => {
            issues.push(json!({"at":"new","what":"panic","msg": panic_message(p)}));
            out["new"] = json!("panic");
            out["issues"] = json!(issues);
            out["ok"] = json!(false);
            return Ok(out);
        }
        Ok(Err(e)) => {
            out["new"] = json!("err");
            out["new_msg"] = json!(e);
            if accept == Some(true) {
                issues.push(json!({"at":"new","what":"rejected","msg": e}));
            }
            out["ok"] = json!(issues.is_empty());
            out["issues"] = json!(issues);
            return Ok(out);
        }
        Ok(Ok(t)) => t,
    };
    out["new"] = json!("ok");
    if accept == Some(false) {
        issues.push(json!({"at":"new","what":"accepted"}));
    }

    // -- parameters
    let mut params: Vec<(String, J)> = tmpl
        .parameters()
        .iter()
        .map(|(n, t)| (n.as_inner().to_string(), ty_to_json(t)))
        .collect();
    params.sort_by(|a, b| a.0.cmp(&b.0));
    if let Some(exp) = case.get("params").and_then(|p| p.as_array()) {
        let mut exp: Vec<(String, J)> = exp
            .iter()
            .map(|p| (p[0].as_str().unwrap_or("").to_string(), p[1].clone()))
            .collect();
        exp.sort_by(|a, b| a.0.cmp(&b.0));
        if exp != params {
            issues.push(json!({"at":"parameters","what":"mismatch","observed": params.iter().map(|(n,t)| json!([n,t])).collect::<Vec<_>>()}));
        }
    }

    // -- instantiate (debug symbols off / on)
    let args = args_from_json(&case["args"])?;
    let inst_expect = case.get("inst").and_then(|x| x.as_str()).unwrap_or("ok");
    let wnames = case["wnames"].as_array().cloned().unwrap_or_default();
    let wtypes = case["wtypes"].as_array().cloned().unwrap_or_default();
    let points = case["points"].as_array().cloned().unwrap_or_default();
    let verdicts = case["verdicts"].as_array().cloned().unwrap_or_default();
    let envs: Vec<J> = match case.get("envs").and_then(|e| e.as_array()) {
        Some(a) if !a.is_empty() => a.clone(),
        _ => vec![json!({})],
    };
    let verdicts_env = case.get("verdicts_env").and_then(|v| v.as_array()).cloned().unwrap_or_default();
    let prune = case.get("prune").and_then(|p| p.as_bool()).unwrap_or(false);
    let dbg_modes: Vec<bool> = match case.get("dbg").and_then(|d| d.as_array()) {
        Some(a) => a.iter().filter_map(|b| b.as_bool()).collect(),
        None => vec![false, true],
    };
    let mut commit_hex = vec![];
    let mut n_runs = 0usize;
    let mut first_mode = true;
    for dbg in dbg_modes {
        let rec = want_trace && first_mode;
        first_mode = false;
        if rec {
            simfony::verif::start();
        }
        let inst = catch_unwind(AssertUnwindSafe(|| tmpl.instantiate(args.clone(), dbg)));
        if rec {
            trace.extend(simfony::verif::take());
            out["trace"] = json!(trace);
        }
        let compiled = match inst {
            Err(p) => {
                issues.push(json!({"at":"instantiate","dbg":dbg,"what":"panic","msg": panic_message(p)}));
                continue;
            }
            Ok(Err(e)) => {
                if inst_expect == "ok" {
                    issues.push(json!({"at":"instantiate","dbg":dbg,"what":"err","msg": e}));
                }
                out["inst"] = json!("err");
                out["inst_msg"] = json!(e);
                continue;
            }
            Ok(Ok(c)) => c,
        };
        out["inst"] = json!("ok");
        if inst_expect == "err" {
            issues.push(json!({"at":"instantiate","dbg":dbg,"what":"accepted"}));
            continue;
        }
        // -- commit
        let commit = catch_unwind(AssertUnwindSafe(|| compiled.commit()));
        let commit = match commit {
            Err(p) => {
                issues.push(json!({"at":"commit","dbg":dbg,"what":"panic","msg": panic_message(p)}));
                continue;
            }
            Ok(c) => c,
        };
        let arrow = commit.arrow();
        if !(arrow.source.is_unit() && arrow.target.is_unit()) {
            issues.push(json!({"at":"commit","dbg":dbg,"what":"arrow","msg": arrow.to_string()}));
        }
        let cmr = commit.cmr();
        let cmr_bytes: &[u8] = cmr.as_ref();
        commit_hex.push(cmr.to_string());
        // -- debug markers (C14)
        if let Some(sites) = case.get("sites").and_then(|s| s.as_array()) {
            if dbg {
                out["markers"] = json!(crate::debugsym::check(&compiled, &commit, sites, &mut issues)?);
            } else if !crate::debugsym::markers_in(&commit).is_empty() {
                issues.push(json!({"at":"debug","what":"marker_in_plain_build","msg":"a build without debug symbols contains a debug marker"}));
            }
        }
        // -- witness points x environments
        for (ei, envj) in envs.iter().enumerate() {
            let env = env_from_json(envj);
            for (pi, point) in points.iter().enumerate() {
                let vals = point.as_array().ok_or("point")?;
                let mut map = named_values(&wnames, &wtypes, vals)?;
                // names the behaviour leaves out of the witness map at this point (witnesses of branches that are not executed)
                if let Some(names) = case.get("omit").and_then(|o| o.get(pi)).and_then(|o| o.as_array()) {
                    for n in names.iter().filter_map(|n| n.as_str()) {
                        map.remove(&WitnessName::from_str_unchecked(n));
                    }
                }
                let rr = run_point(&compiled, cmr_bytes, WitnessValues::from(map), &env, prune);
                n_runs += 1;
                let expected = match verdicts_env.get(ei).and_then(|row| row.as_array()) {
                    Some(row) => row.get(pi).and_then(|v| v.as_bool()),
                    None => verdicts.get(pi).and_then(|v| v.as_bool()),
                };
                let base = json!({"dbg":dbg,"point":pi,"env":ei});
                let mut push = |what: &str, msg: String| {
                    let mut b = base.clone();
                    b["at"] = json!("run");
                    b["what"] = json!(what);
                    b["msg"] = json!(msg);
                    issues.push(b);
                };
                match &rr.satisfy {
                    Err(e) => {
                        // with pruning, satisfy must fail exactly when the program fails under env
                        if prune {
                            if expected == Some(true) {
                                push("satisfy_err", e.clone());
                            }
                        } else {
                            push("satisfy_err", e.clone());
                        }
                        continue;
                    }
                    Ok(()) => {
                        if prune && expected == Some(false) {
                            push("prune_accepts_failing", String::new());
                        }
                    }
                }
                if !rr.cmr_eq {
                    push("cmr", "redeem CMR differs from commit CMR".into());
                }
                if let Err(e) = &rr.decode {
                    push("decode", e.clone());
                } else if !rr.dec_cmr_eq {
                    push("cmr", "decoded CMR differs from commit CMR".into());
                }
                if rr.exec.starts_with("panic") || rr.exec_direct.starts_with("panic") {
                    push("exec_panic", format!("{} / direct {}", rr.exec, rr.exec_direct));
                } else if rr.exec.starts_with("limit") {
                    push("exec_limit", rr.exec.clone());
                }
                if let (Some(exp), Some(obs)) = (expected, verdict_of(&rr.exec)) {
                    if exp != obs {
                        push("verdict", format!("expected {} observed {}", exp, obs));
                    }
                }
            }
        }
        // -- pruning again, point-major: the same witness map under one environment after the other on the SAME compiled
        //    program (the outcome must be a function of (witness, environment), not of the calls made before)
        if prune {
            for (pi, point) in points.iter().enumerate() {
                let vals = point.as_array().ok_or("point")?;
                for (ei, envj) in envs.iter().enumerate() {
                    let env = env_from_json(envj);
                    let mut map = named_values(&wnames, &wtypes, vals)?;
                    if let Some(names) = case.get("omit").and_then(|o| o.get(pi)).and_then(|o| o.as_array()) {
                        for n in names.iter().filter_map(|n| n.as_str()) {
                            map.remove(&WitnessName::from_str_unchecked(n));
                        }
                    }
                    let rr = run_point(&compiled, cmr_bytes, WitnessValues::from(map), &env, true);
                    n_runs += 1;
                    let expected = verdicts_env.get(ei).and_then(|row| row.as_array()).and_then(|row| row.get(pi)).and_then(|v| v.as_bool());
                    let what = match (&rr.satisfy, expected) {
                        (Err(_), Some(true)) => Some("satisfy_err"),
                        (Ok(()), Some(false)) => Some("prune_accepts_failing"),
                        (Ok(()), Some(true)) if verdict_of(&rr.exec) == Some(false) => Some("verdict"),
                        _ => None,
                    };
                    if let Some(what) = what {
                        issues.push(json!({"at":"run","what":what,"dbg":dbg,"point":pi,"env":ei,"prune":true,
                            "msg": format!("second pass (one witness map under every environment in turn): {:?} / exec {}", rr.satisfy, rr.exec)}));
                    }
                }
            }
        }
    }
    // -- witness maps with their own expectation (C05)
    if let Some(maps) = case.get("maps").and_then(|m| m.as_array()) {
        if !maps.is_empty() {
            if let Ok(Ok(compiled)) = catch_unwind(AssertUnwindSafe(|| tmpl.instantiate(args.clone(), false))) {
                let cmr = compiled.commit().cmr();
                let env = env_from_json(&json!({}));
                for (mi, m) in maps.iter().enumerate() {
                    let entries = entries_from_json(&m["entries"])?;
                    let expect = m["expect"].as_str().unwrap_or("ok");
                    let rr = run_point(&compiled, cmr.as_ref(), WitnessValues::from(entries), &env, false);
                    n_runs += 1;
                    let mut push = |what: &str, msg: String| {
                        issues.push(json!({"at":"map","map":mi,"what":what,"msg":msg,"entries": m["entries"]}));
                    };
                    // C02 speaks about EVERY map that satisfy accepts (also one it should have rejected, or one with
                    // undeclared names): same CMR, the encoding decodes to that CMR, no panic of the Bit Machine
                    if rr.satisfy.is_ok() && !(expect == "ok" && m["verdict"].as_str() == Some("none")) {
                        if !rr.cmr_eq {
                            push("cmr", "redeem CMR differs from the committed CMR".to_string());
                        }
                        match &rr.decode {
                            Err(e) => push("decode_accepted_map", e.clone()),
                            Ok(()) if !rr.dec_cmr_eq => push("cmr", "decoded program has another CMR".to_string()),
                            Ok(()) => {}
                        }
                        if rr.exec.starts_with("panic") || rr.exec_direct.starts_with("panic") {
                            push("exec_panic_accepted_map", rr.exec.clone());
                        }
                    }
                    match (&rr.satisfy, expect) {
                        (Ok(()), "err") => push("satisfy_accepts_ill_typed", String::new()),
                        (Err(e), "ok") => {
                            // a missing used witness is reported by finalisation, not by the type check: unconstrained
                            if !(m["verdict"].as_str() == Some("none") && !e.contains("declared")) {
                                push("satisfy_rejects_well_typed", e.clone())
                            }
                        }
                        (Err(e), _) => {
                            if e.starts_with("panic") {
                                push("satisfy_panic", e.clone());
                            }
                        }
                        (Ok(()), _) => {
                            if rr.exec.starts_with("panic") || rr.exec_direct.starts_with("panic") {
                                push("exec_panic", rr.exec.clone());
                            }
                            let exp = match m["verdict"].as_str() {
                                Some("ok") => Some(true),
                                Some("fail") => Some(false),
                                _ => None,
                            };
                            if let (Some(exp), Some(obs)) = (exp, verdict_of(&rr.exec)) {
                                if exp != obs {
                                    push("delivery", format!("expected {} observed {}", exp, obs));
                                }
                            }
                            if exp.is_some() {
                                if let Err(e) = &rr.decode {
                                    push("decode", e.clone());
                                }
                            }
                        }
                    }
                }
            }
        }
    }
    // -- argument maps with their own expectation (C12)
    if let Some(maps) = case.get("argmaps").and_then(|m| m.as_array()) {
        for (mi, m) in maps.iter().enumerate() {
            let entries = entries_from_json(&m["entries"])?;
            let expect = m["expect"].as_str().unwrap_or("ok");
            let r = catch_unwind(AssertUnwindSafe(|| tmpl.instantiate(Arguments::from(entries), false)));
            let obs = match &r {
                Ok(Ok(_)) => "ok".to_string(),
                Ok(Err(e)) => format!("err:{e}"),
                Err(_) => "panic".to_string(),
            };
            let kind_ok = obs.starts_with("err:") && !obs.contains("Failed to compile");
            let good = (expect == "ok" && obs == "ok") || (expect == "err" && kind_ok);
            if !good {
                issues.push(json!({"at":"argmap","map":mi,"what": if expect == "ok" {"instantiate_rejects_consistent"} else {"instantiate_accepts_inconsistent"},
                                   "msg": obs, "entries": m["entries"]}));
            }
        }
    }
    // -- the program with arguments written literally (C12): same verdicts
    if let Some(alt) = case.get("alt").and_then(|a| a.as_array()) {
        if !alt.is_empty() {
            let alt_src = join_tokens(&case["alt"], sep)?;
            match catch_unwind(AssertUnwindSafe(|| CompiledProgram::new(alt_src.as_str(), args.clone(), false))) {
                Ok(Ok(compiled)) => {
                    let cmr = compiled.commit().cmr();
                    let env = env_from_json(&json!({}));
                    for (pi, point) in points.iter().enumerate() {
                        let vals = point.as_array().ok_or("point")?;
                        let map = named_values(&wnames, &wtypes, vals)?;
                        let rr = run_point(&compiled, cmr.as_ref(), WitnessValues::from(map), &env, false);
                        n_runs += 1;
                        let expected = verdicts.get(pi).and_then(|v| v.as_bool());
                        if let (Some(exp), Some(obs)) = (expected, verdict_of(&rr.exec)) {
                            if exp != obs {
                                issues.push(json!({"at":"alt","point":pi,"what":"verdict","msg": format!("expected {} observed {}", exp, obs), "alt_src": alt_src}));
                            }
                        }
                    }
                }
                Ok(Err(e)) => issues.push(json!({"at":"alt","what":"rejected","msg": e, "alt_src": alt_src})),
                Err(p) => issues.push(json!({"at":"alt","what":"panic","msg": panic_message(p), "alt_src": alt_src})),
            }
        }
    }
    if commit_hex.len() == 2 && case.get("dbg_cmr_note").is_some() {
        out["cmrs"] = json!(commit_hex);
    }
    out["runs"] = json!(n_runs);
    out["ok"] = json!(issues.is_empty());
    if issues.len() > 12 {
        out["n_issues"] = json!(issues.len());
        issues.truncate(12);
    }
    out["issues"] = json!(issues);
    Ok(out)
}
