//! C07: structural layout of types and values, reconstruction.

use serde_json::{json, Value as J};
use simfony::types::StructuralType;
use simfony::value::{StructuralValue, Value};

use crate::conv::*;

fn ints(j: &J) -> R<Vec<u8>> {
    j.as_array()
        .ok_or("expected array of ints")?
        .iter()
        .map(|x| x.as_u64().map(|x| x as u8).ok_or_else(|| "int".to_string()))
        .collect()
}

/// `{"kind":"layout_type","ty":T,"st":[preorder]}`
pub fn layout_type(case: &J) -> R<J> {
    let ty = ty_from_json(&case["ty"])?;
    let expect = ints(&case["st"])?;
    let st = StructuralType::from(&ty);
    let got = final_preorder(&st.clone().into());
    // printed type must parse back (C15 also covers this; cheap here)
    let ok = got == expect;
    Ok(json!({"ok": ok, "ty": ty.to_string(), "observed_len": got.len(), "expected_len": expect.len(),
              "observed": if ok { J::Null } else { json!(got) }}))
}

/// `{"kind":"layout_val","ty":T,"v":V,"bits":[compact bits]}`
pub fn layout_val(case: &J) -> R<J> {
    let ty = ty_from_json(&case["ty"])?;
    let v = val_from_json(&case["v"], &ty)?;
    let expect = ints(&case["bits"])?;
    let sv = StructuralValue::from(&v);
    let got = compact_bits(sv.as_ref());
    let bits_ok = got == expect;
    let typed_ok = sv.is_of_type(&StructuralType::from(&ty));
    let back = Value::reconstruct(&sv, &ty);
    let back_ok = back.as_ref() == Some(&v);
    let ok = bits_ok && typed_ok && back_ok;
    Ok(json!({"ok": ok, "ty": ty.to_string(), "value": v.to_string(),
              "bits_ok": bits_ok, "typed_ok": typed_ok, "reconstruct_ok": back_ok,
              "observed": if bits_ok { J::Null } else { json!(got) },
              "reconstructed": back.map(|b| b.to_string())}))
}
