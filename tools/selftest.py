#!/usr/bin/env python3
"""Negative controls: show that the machinery rejects what it must reject.

  1. broken models   - MC_*Broken.cfg override one definition of Codegen.tla (lookup searches the right component first,
                       list_fold folds the second half first, for_while_0 runs bit 1 first): TLC must report a violated
                       invariant.  Otherwise the model invariants would be vacuous.
  2. trace (scopes)  - traces of the real compiler (examples/*.simf and a program with fold / for_while / witness /
                       parameter) are accepted by TraceScopes.tla; after corrupting ONE logged field (path bit, looked-up
                       type, a dropped a.pop, a repeated a.insert_wit, a for_while stack entry, a fold doubling count) the
                       trace must be rejected exactly at that event.
  3. trace (spans)   - a rendered error record is accepted by TraceSpans.tla; after shifting one quoted line it is rejected.
  4. replay          - behaviours whose expected verdict / acceptance was altered must be reported by the harness.

Writes work/selftest.json; exit 0 when every control behaves, 1 otherwise (2: tool error).
"""
import glob
import json
import os
import re
import subprocess
import sys

ROOT = os.path.dirname(os.path.dirname(os.path.abspath(__file__)))
sys.path.insert(0, ROOT)
from checklib.core import build_harness, run_replay, workdir, ToolError, env_base, TLA_CP, SPEC  # noqa: E402
from checklib.progfam import tlc_family  # noqa: E402
from checklib import c20  # noqa: E402

WD = workdir("selftest")
results = []


def record(name, ok, detail=""):
    results.append({"control": name, "ok": bool(ok), "detail": detail})
    print(("ok    " if ok else "FAILED ") + name + ("  " + detail if detail else ""), flush=True)


def tlc(module, env=None, workers=4, timeout=600):
    e = env_base()
    e.update({"VERIF_TIER": "quick", "VERIF_SEED": "0"})
    e.pop("JAVA_TOOL_OPTIONS", None)
    if env:
        e.update(env)
    cmd = ["timeout", str(timeout), "java", "-Xss512m", "-XX:+UseParallelGC", "-cp", TLA_CP, "tlc2.TLC", "-workers", str(workers),
           "-metadir", os.path.join(WD, "meta_" + module), "-cleanup", "-noGenerateSpecTE",
           "-config", os.path.join(SPEC, module + ".cfg"), os.path.join(SPEC, module + ".tla")]
    p = subprocess.run(cmd, cwd=WD, env=e, stdout=subprocess.PIPE, stderr=subprocess.STDOUT, text=True)
    return p.returncode, p.stdout


def depth_of(txt):
    m = re.search(r"depth of the complete state graph search is (\d+)", txt)
    if not m:
        raise ToolError("no depth in TLC output:\n" + txt[-800:])
    return int(m.group(1))


def broken_models():
    for module, inv in (("MC_ScopingBroken", "CompileCorrect"), ("MC_FoldBroken", "CompileCorrect"),
                        ("MC_ForWhileBroken", "CompileCorrect")):
        rc, txt = tlc(module, workers=6, timeout=600)
        record("model:" + module, f"Invariant {inv} is violated" in txt, f"tlc rc={rc}")


EXTRA = """fn step(e: u8, acc: u8) -> u8 { let (c, s): (bool, u8) = jet::add_8(e, acc); s }
fn body(acc: u8, ctx: u8, i: u4) -> Either<u8, u8> { match jet::eq_8(acc, ctx) { true => Left(acc), false => Right(acc), } }
fn main() {
    let l: List<u8, 8> = list![1, 2, 3];
    let s: u8 = fold::<step, 8>(l, 0);
    let w: u8 = witness::A;
    let p: u8 = param::P;
    let r: Either<u8, u8> = for_while::<body>(s, w);
    assert!(jet::eq_8(p, p));
}
"""


def scope_traces():
    cases = []
    for f in sorted(glob.glob("/repo/examples/*.simf")):
        cases.append({"kind": "prog", "src": open(f).read(), "trace": True, "args": [], "dbg": [True], "points": [],
                      "wnames": [], "wtypes": []})
    cases.append({"kind": "prog", "src": EXTRA, "trace": True, "args": [["P", {"ty": {"k": "u", "n": 8}, "v": {"k": "vu", "bits": [0, 0, 0, 0, 0, 0, 0, 1]}}]],
                  "dbg": [False], "points": [], "wnames": [], "wtypes": []})
    res = run_replay("selftest", cases, name="scopes")
    lines = []
    for c in cases:
        tr = res[c["id"]].get("trace") or []
        lines.append(json.dumps({"e": "reset"}))
        lines += tr
    kinds = {json.loads(l)["e"] for l in lines}
    need = {"a.get_var", "a.pop", "a.insert_wit", "c.get", "c.for_while", "c.fold", "a.insert_param", "a.track", "c.child"}
    record("trace:scopes events present", need <= kinds, "missing: " + ",".join(sorted(need - kinds)))

    def run(ls, tag):
        p = os.path.join(WD, f"scopes_{tag}.ndjson")
        with open(p, "w") as f:
            f.write("\n".join(ls) + "\n")
        rc, txt = tlc("TraceScopes", env={"TRACE": p}, workers=1)
        return depth_of(txt) - 1

    n = run(lines, "good")
    record("trace:scopes accepts the real traces", n == len(lines), f"{n}/{len(lines)} events")

    def first(pred, skip=0):
        k = [i for i, l in enumerate(lines) if pred(json.loads(l))]
        return k[min(skip, len(k) - 1)]

    def corrupt(name, idx, fn, expect_at=None):
        ls = list(lines)
        e = json.loads(ls[idx])
        new = fn(e)
        if new is None:
            del ls[idx]
        elif isinstance(new, list):
            ls[idx:idx + 1] = [json.dumps(x) for x in new]
        else:
            ls[idx] = json.dumps(new)
        got = run(ls, "bad")
        exp = idx if expect_at is None else expect_at
        record("trace:scopes rejects " + name, got < len(ls) and (expect_at == "later" and got >= idx or got == exp),
               f"accepted {got} of {len(ls)} events, corrupted event index {idx}")

    i = first(lambda e: e["e"] == "c.get" and e["found"] and len(e["path"]) > 1, 7)
    corrupt("a flipped path bit (c.get)", i, lambda e: dict(e, path=[1 - e["path"][0]] + e["path"][1:]))
    i = first(lambda e: e["e"] == "a.get_var" and e["found"], 5)
    corrupt("a changed lookup type (a.get_var)", i, lambda e: dict(e, ty={"k": "u", "n": 2}))
    i = first(lambda e: e["e"] == "a.get_var" and e["found"], 9)
    corrupt("a lookup reported as not found", i, lambda e: dict(e, found=False, ty={"k": "none"}))
    i = first(lambda e: e["e"] == "a.insert_wit")
    corrupt("a witness accepted twice (a.insert_wit)", i, lambda e: [e, e], expect_at=i + 1)
    i = first(lambda e: e["e"] == "a.insert_param")
    corrupt("a parameter at two types (a.insert_param)", i, lambda e: [e, dict(e, ty={"k": "u", "n": 16})], expect_at=i + 1)
    i = first(lambda e: e["e"] == "c.for_while")
    corrupt("a changed task stack (c.for_while)", i, lambda e: dict(e, stack=[1 - e["stack"][0]] + e["stack"][1:]))
    i = first(lambda e: e["e"] == "c.fold")
    corrupt("a changed doubling count (c.fold)", i, lambda e: dict(e, doublings=e["doublings"] + 1))
    i = first(lambda e: e["e"] == "a.pop", 3)
    corrupt("a dropped a.pop", i, lambda e: None, expect_at="later")
    i = first(lambda e: e["e"] == "c.insert", 4)
    corrupt("a dropped c.insert", i, lambda e: None, expect_at="later")


def span_traces():
    srcs = ["fn main() {\n    let a: u8 = 300;\n}\n", "fn main() {\r\n    let a: (u8,\r\n u8) = (1,\r\n 2, 3);\r\n}\r\n"]
    cases = [{"kind": "prog", "src": s, "args": [], "points": [], "wnames": [], "wtypes": []} for s in srcs]
    res = run_replay("selftest", cases, name="spans")
    recs = []
    for c in cases:
        r = res[c["id"]]
        rec = c20.structure(r["src"], r.get("new_msg", ""))
        rec.pop("bare", None)
        recs.append(rec)

    def run(rs, tag):
        p = os.path.join(WD, f"spans_{tag}.ndjson")
        with open(p, "w") as f:
            for e in rs:
                f.write(json.dumps(e, separators=(",", ":")) + "\n")
        rc, txt = tlc("TraceSpans", env={"TRACE": p}, workers=1)
        return depth_of(txt) - 1

    n = run(recs, "good")
    record("trace:spans accepts the real records", n == len(recs), f"{n}/{len(recs)}")
    bad = json.loads(json.dumps(recs))
    bad[0]["quotes"][0]["n"] += 1
    n = run(bad, "bad1")
    record("trace:spans rejects a shifted line number", n == 0, f"accepted {n}")
    bad = json.loads(json.dumps(recs))
    bad[1]["quotes"][-1]["text"] = bad[1]["quotes"][-1]["text"][1:]
    n = run(bad, "bad2")
    record("trace:spans rejects an altered quoted line", n == 1, f"accepted {n}")


def replay_controls():
    cases, _ = tlc_family("selftest", "compile", "quick", 0)
    cases = [dict(c) for c in cases if c.get("kind") == "prog"]
    with_points = [c for c in cases if len(c.get("points", [])) >= 2 and c.get("accept") is not False][:40]
    alt = []
    for c in with_points:
        d = json.loads(json.dumps(c))
        d["verdicts"][0] = not d["verdicts"][0]
        alt.append(d)
    for c in cases[:40]:
        d = json.loads(json.dumps(c))
        if d.get("accept") is True:
            d["accept"] = False
            alt.append(d)
    res = run_replay("selftest", alt, name="replay")
    missed = [c["id"] for c in alt if res[c["id"]].get("ok")]
    record("replay: altered expectations are reported", len(alt) > 0 and not missed, f"{len(alt)} altered behaviours, {len(missed)} not reported")


def main():
    build_harness()
    which = sys.argv[1:] or ["models", "scopes", "spans", "replay"]
    try:
        if "scopes" in which:
            scope_traces()
        if "spans" in which:
            span_traces()
        if "replay" in which:
            replay_controls()
        if "models" in which:
            broken_models()
    except ToolError as e:
        print("TOOL-ERROR:", e)
        return 2
    # keep the outcome of the groups that were not run this time
    path = os.path.join(ROOT, "work", "selftest.json")
    merged = {}
    if os.path.exists(path):
        try:
            merged = {r["control"]: r for r in json.load(open(path))}
        except (ValueError, KeyError, TypeError):
            merged = {}
    for r in results:
        merged[r["control"]] = r
    with open(path, "w") as f:
        json.dump(sorted(merged.values(), key=lambda r: r["control"]), f, indent=1)
    bad = [r for r in results if not r["ok"]]
    print(f"selftest: {len(results) - len(bad)}/{len(results)} controls behave")
    return 1 if bad else 0


if __name__ == "__main__":
    sys.exit(main())
