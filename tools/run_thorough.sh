#!/bin/bash
# every thorough check in sequence with an outer time-out per check (seconds, default 5400)
cd "$(dirname "$0")/.."
mkdir -p work
lim=${1:-5400}
shift
props=${@:-$(seq -w 1 20 | sed 's/^/C/')}
for p in $props; do
  s=$(date +%s)
  timeout $lim ./check $p --tier thorough > work/thorough_$p.log 2>&1; rc=$?
  echo "$p rc=$rc $(( $(date +%s) - s ))s $(grep -c '^VIOLATION' work/thorough_$p.log) violation line(s)"
done
