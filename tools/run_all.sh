#!/bin/bash
# usage: tools/run_all.sh [quick|thorough]  - every registered check in sequence; prints one line per property
cd "$(dirname "$0")/.."
tier=${1:-quick}
mkdir -p work
rc_all=0
for i in $(seq -w 1 20); do
  ./check C$i --tier $tier > work/${tier}_C$i.log 2>&1; rc=$?
  echo "C$i rc=$rc $(grep -c '^VIOLATION' work/${tier}_C$i.log) violation line(s) $(grep -c 'MODEL DRIFT' work/${tier}_C$i.log) drift note(s)"
  [ $rc -ne 0 ] && rc_all=1
done
exit $rc_all
