#!/usr/bin/env python3
"""Markdown tables for DESIGN.md §12 from the committed artefacts: seeded/*/meta.json (+ summary.txt) and evidence/*.json."""
import glob
import json
import os

ROOT = os.path.dirname(os.path.dirname(os.path.abspath(__file__)))


def seeds():
    print("| seed | property | change (one line) | confirmed | detected by (quick tier) |")
    print("|---|---|---|---|---|")
    for d in sorted(glob.glob(os.path.join(ROOT, "seeded", "*"))):
        mp = os.path.join(d, "meta.json")
        if not os.path.exists(mp):
            continue
        m = json.load(open(mp))
        summ = ""
        sp = os.path.join(d, "summary.txt")
        if os.path.exists(sp):
            summ = open(sp).read().strip().replace("\n", " ")
        det = ", ".join(f"{x['check']} ({x['violation_lines']} lines)" if x.get("exit") == 1 else f"{x['check']}: not detected"
                        for x in m.get("detected_by", []) if isinstance(x, dict) and (x.get("exit") == 1 or x.get("check") == m["property"])) or "—"
        print(f"| {m['seed_id']} | {m['property']} | {summ} | {'yes' if m.get('confirmed') else 'NO'} | {det} |")


def evidence():
    print("| property | level | models | states | behaviours replayed | executions | impl events validated | wall (quick) |")
    print("|---|---|---|---|---|---|---|---|")
    for p in sorted(glob.glob(os.path.join(ROOT, "evidence", "C*.json"))):
        e = json.load(open(p))
        c = e.get("coverage", {})
        tr = c.get("impl_traces_validated_against_spec", {})
        ev = tr.get("accepted_events", "") if isinstance(tr, dict) else ""
        if not ev and "events" in c:
            ev = c.get("events")
        models = ", ".join(c.get("models", [])) if isinstance(c.get("models"), list) else ""
        print(f"| {e['property_id']} | {e.get('level')} | {models} | {c.get('states', '')} | "
              f"{c.get('traces_validated_against_impl', c.get('evaluations', ''))} | {c.get('executions', '')} | {ev} | {e.get('wall_s')} s |")


if __name__ == "__main__":
    seeds()
    print()
    evidence()
