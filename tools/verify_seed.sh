#!/bin/bash
# usage: verify_seed.sh <worktree> <seed-id> <property> ; confirms a seeded change and stores it under /verif/seeded/<seed-id>/
set -u
WT=$1; SID=$2; PROP=$3
OUT=/verif/seeded/$SID
mkdir -p $OUT
cd $WT || exit 2
demo=$(ls tests/demo_*.rs | head -1)
name=$(basename $demo .rs)
git diff -- src > $OUT/patch.diff
cp $demo $OUT/
[ -f MUTATION.md ] && cp MUTATION.md $OUT/
echo "== with change: existing suite" > $OUT/verify.log
# the demo is an extra integration test; run the pinned suite without it
mv $demo /tmp/$name.rs.hold
cargo test --workspace --offline >> $OUT/verify.log 2>&1; suite_rc=$?
mv /tmp/$name.rs.hold $demo
echo "== with change: demo" >> $OUT/verify.log
cargo test --offline --test $name >> $OUT/verify.log 2>&1; demo_with=$?
git apply -R $OUT/patch.diff
echo "== without change: demo" >> $OUT/verify.log
cargo test --offline --test $name >> $OUT/verify.log 2>&1; demo_without=$?
git apply $OUT/patch.diff
tail -c 20000 $OUT/verify.log > $OUT/verify.tail && mv $OUT/verify.tail $OUT/verify.log
echo "suite_rc=$suite_rc demo_with_change_rc=$demo_with demo_without_change_rc=$demo_without"
python3 - <<PY
import json
json.dump({"seed_id":"$SID","property":"$PROP","suite_passes_with_change": $suite_rc==0,
 "demo_fails_with_change": $demo_with!=0, "demo_passes_without_change": $demo_without==0,
 "confirmed": ($suite_rc==0 and $demo_with!=0 and $demo_without==0),
 "commands":["cargo test --workspace --offline (demo file moved aside)","cargo test --offline --test $name (with change)","git apply -R patch.diff; cargo test --offline --test $name (without change)"],
 "needs": "", "detected_by": []}, open("$OUT/meta.json","w"), indent=1)
PY
