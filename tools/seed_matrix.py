#!/usr/bin/env python3
"""Runs the registered quick checks against every seeded change under /verif/seeded and records which detect it.
usage: seed_matrix.py [seed-id ...] [--checks=C01,C02]   (default: each seed against the check of its own property)

The patch is applied to /repo's working tree (git apply), the check runs, the tree is restored (git checkout -- .).
The evidence files describe the UNCHANGED tree: they are saved before and restored after every run on a changed tree."""
import json
import os
import shutil
import subprocess
import sys

VERIF = "/verif"


def sh(cmd, **kw):
    return subprocess.run(cmd, shell=True, stdout=subprocess.PIPE, stderr=subprocess.STDOUT, text=True, **kw)


def main():
    args = [a for a in sys.argv[1:] if not a.startswith("--")]
    checks = None
    for a in sys.argv[1:]:
        if a.startswith("--checks"):
            checks = a.split("=", 1)[1].split(",")
    seeds = args or sorted(os.listdir(f"{VERIF}/seeded"))
    if sh("git -C /repo status --porcelain").stdout.strip():
        print("refusing: /repo has uncommitted changes")
        return 2
    keep = f"{VERIF}/work/evidence_keep"
    for sid in seeds:
        d = f"{VERIF}/seeded/{sid}"
        meta = json.load(open(f"{d}/meta.json"))
        todo = checks or [meta["property"]]
        shutil.rmtree(keep, ignore_errors=True)
        shutil.copytree(f"{VERIF}/evidence", keep)
        try:
            r = sh(f"git -C /repo apply {d}/patch.diff")
            if r.returncode != 0:
                print(sid, "patch does not apply:", r.stdout[-300:])
                continue
            for chk in todo:
                r = sh(f"cd {VERIF} && ./check {chk} --tier quick")
                nviol = r.stdout.count("VIOLATION property=")
                res = {"check": chk, "exit": r.returncode, "violation_lines": nviol,
                       "first": next((l for l in r.stdout.splitlines() if l.startswith("  ")), "")[:300]}
                det = [x for x in meta.get("detected_by", []) if x.get("check") != chk]
                det.append(res)
                meta["detected_by"] = det
                print(sid, chk, "exit", r.returncode, "violations", nviol, flush=True)
        finally:
            sh("git -C /repo checkout -- .")
            for f in os.listdir(keep):
                shutil.copy(os.path.join(keep, f), f"{VERIF}/evidence/{f}")
        json.dump(meta, open(f"{d}/meta.json", "w"), indent=1)
    return 0


if __name__ == "__main__":
    sys.exit(main())
