#!/usr/bin/env python3
"""Generates /verif/MANIFEST.json from the table below (keeps the manifest valid by construction)."""
import json
import os
import subprocess

VERIF = os.path.dirname(os.path.dirname(os.path.abspath(__file__)))

CHECKS = {
    "C07": dict(
        category="model_checking",
        technique="TLA+ reference layout + TLC-enumerated types/values replayed into the real library; "
                  "TLC model of array.rs algorithms",
        text="TLC exhaustively enumerates a bounded type universe (every constructor, array sizes 0..17 and selected "
             "large ones, list bounds up to 64/512) and values of each type; the documented layout is an executable "
             "TLA+ definition (Types.tla) and every enumerated type / value is replayed into StructuralType::from, "
             "StructuralValue::from and Value::reconstruct. The explicit-stack algorithms of array.rs are modelled step by "
             "step (LayoutMachines.tla) and model-checked equal to the documented layout for all sizes of the tier.",
        note="Trusted: TLC, the harness' JSON<->value conversion, simplicity-lang's accessors. Bounded universe; nothing "
             "claimed outside it. Cast acceptance is checked through compiled programs once the language model covers casts.",
        design="5 (C07)",
    ),
}

PROG_NOTE = ("Trusted: TLC; the TLA+ reference semantics as oracle (cross-checked in the model against the translation "
             "scheme on every enumerated program); the harness' token joiner and JSON<->value conversion; simplicity-lang's "
             "decoder and Bit Machine as observers. Bounded families; nothing claimed outside them.")
CHECKS["C01"] = dict(
    category="model_checking",
    technique="TLA+ source semantics + translation scheme model-checked equal by TLC; every explored program x witness "
              "assignment replayed into compiler, decoder and Bit Machine; implementation traces (hook events of the scope machines / builders, cargo feature verif) validated by TLC against TraceScopes.tla",
    text="TLC enumerates a program family covering the expression forms over a small type universe and, inside the model, "
         "proves book semantics = Simplicity semantics of the translation for every witness assignment; the same behaviours "
         "(program text + expected verdict vector) are replayed against the real pipeline, debug symbols off and on.",
    note=PROG_NOTE, design="5 (C01)")
CHECKS["C02"] = dict(
    category="model_checking",
    technique="lifecycle replay of TLC-generated programs x witness maps: CMR equality, decode of own encoding, Bit Machine totality",
    text="For every generated (program, witness assignment): redeem CMR = commit CMR, the encoding decodes to the same CMR, "
         "execution never panics. The family contains witnesses that are never or partly inspected (the shape that exposed "
         "the defect fixed by the `fix:` commit in /repo).",
    note=PROG_NOTE, design="5 (C02)")
CHECKS["C03"] = dict(
    category="model_checking",
    technique="TLC invariant CodegenTotal on the implementation-shaped code-generation model + replay of instantiate/commit on every accepted text",
    text="Model: the scope/path translation of compile.rs never fails on a well-formed program. Code: every accepted text "
         "instantiates without `Failed to compile`/panic and commits to a 1->1 program.",
    note=PROG_NOTE, design="5 (C03)")
CHECKS["C14"] = dict(
    category="model_checking",
    technique="TLC invariant DebugNeutral (debug wrapper is behaviour neutral) + replay of debug/non-debug builds on all witness assignments; implementation traces (hook events of the scope machines / builders, cargo feature verif) validated by TLC against TraceScopes.tla",
    text="Model and code: debug build and plain build succeed on exactly the same witness assignments, both equal to the source semantics.",
    note=PROG_NOTE + " Marker resolution: every marker CMR found in the debug build must resolve to exactly one predicted call site "
         "(text, kind), every predicted site must have a marker, map_value must reconstruct sample values.", design="5 (C14)")

CHECKS["C04"] = dict(
    category="model_checking",
    technique="static rules as an executable TLA+ definition (WellFormed) classifying TLC-enumerated near-miss programs; replay of TemplateProgram::new; implementation traces (hook events of the scope machines / builders, cargo feature verif) validated by TLC against TraceScopes.tla",
    text="TLC enumerates single-slot near misses of eight program schemas (the eighth: integer literals around 2^N at every width and position) plus the well-formed families; WellFormed (Static.tla, written "
         "from the book) computes accept/reject; the real front end must classify every text the same way.",
    note=PROG_NOTE + " The static rules are the oracle; where the book is silent (alias redefinition, reserved words as names) no case is generated.",
    design="5 (C04)")
CHECKS["C08"] = dict(
    category="model_checking",
    technique="TLC checks the list_fold doubling construction against the reference fold for every bound/length; replay of fold programs on every list length; implementation traces (hook events of the scope machines / builders, cargo feature verif) validated by TLC against TraceScopes.tla",
    text="Model: ListFoldT (compile.rs construction) = reference left-to-right fold for bounds 2..256(512), every length of the tier, "
         "five order-sensitive / panicking fold functions (bounds 2..16 also: zero-width elements, a fold inside the fold function, compound elements with a never-read component). Code: same programs and witness lists replayed on the Bit Machine.",
    note=PROG_NOTE, design="5 (C08)")
CHECKS["C09"] = dict(
    category="model_checking",
    technique="TLC checks the for_while task-stack construction against the reference loop; replay of loops with every exit iteration; implementation traces (hook events of the scope machines / builders, cargo feature verif) validated by TLC against TraceScopes.tla",
    text="Model: ForWhileT (stack W(n+1)=W(n)W(n)adapt, for_while_0, adapt_f) = reference loop (ascending counters, ctx constant, "
         "first Left ends, nothing evaluated after the exit) for widths 1,2,4,8(16), also for a loop nested in a loop body. Code: replay on the Bit Machine.",
    note=PROG_NOTE, design="5 (C09)")
CHECKS["C10"] = dict(
    category="model_checking",
    technique="TLC-enumerated binding structures; invariant: path lookup of the code-generation scope = lexical scoping; replay with distinct constants per binder; implementation traces (hook events of the scope machines / builders, cargo feature verif) validated by TLC against TraceScopes.tla (typing-side lookups must return the nearest binding)",
    text="Exhaustive (bounded) arrangements of nested blocks, pattern lets, match arms (also typed differently) and calls over three names, plus array / tuple patterns of 2..9 elements re-binding a name at every position (MC_ArrayPat); the value observed at "
         "each probe must be the one lexical scoping prescribes - in the model (scope/path translation) and in the real compiler.",
    note=PROG_NOTE, design="5 (C10)")

CHECKS["C05"] = dict(
    category="model_checking",
    technique="TLA+ rule SatisfyOK (nominal witness typing) + reference semantics; TLC-generated witness maps replayed into satisfy / Bit Machine",
    text="Programs with 0..8 witnesses over classes of layout-equal types; maps exact / extra / missing / re-typed within the layout class / "
         "other layout / swapped. satisfy must return Err exactly as SatisfyOK says; on Ok the observed verdict must be the one of the "
         "reference semantics (each witness compared with its own literal, so cross-delivery is visible); list witnesses of every length "
         "are observed through the order-sensitive folds of MC_Fold.",
    note=PROG_NOTE + " Maps omitting a used witness: only `no panic` is required.", design="5 (C05)")
CHECKS["C12"] = dict(
    category="model_checking",
    technique="TLA+ rules Params/InstantiateOK + invariant SubstEquivalent (instantiation = literal substitution) checked by TLC; replay of parameters(), instantiate and both programs; implementation traces (hook events of the scope machines / builders, cargo feature verif) validated by TLC against TraceScopes.tla",
    text="Programs with 0..4 parameters (13 types, five of them zero-width) in main / called / never-called functions; parameters() must equal the model's set; argument maps "
         "exact/extra/missing/re-typed classified by InstantiateOK; instantiated and literally substituted program give the model's "
         "verdict vector.",
    note=PROG_NOTE, design="5 (C12)")
CHECKS["C18"] = dict(
    category="model_checking",
    technique="TLA+ pruning model (PruneRun/Skel) with invariants PruneNeutral, EnvCompileCorrect; replay of satisfy_with_env over environments x witnesses",
    text="Environment-reading programs x 8 lock-time/sequence environments x witness points: satisfy_with_env returns a program iff the "
         "reference semantics succeeds under env; the program keeps the CMR, decodes and succeeds under env.",
    note=PROG_NOTE + " The meaning of the lock-time jets is part of the model and is itself validated by the replay on the unchanged tree.",
    design="5 (C18)")

CHECKS["C11"] = dict(
    category="model_checking",
    technique="TLA+ literal semantics (Literals.tla, big decimals by limb arithmetic, cross-checked against generated expansions of 2^N) + TLC-enumerated literal forms replayed through compile and run",
    text="Every width x boundary values x three notations x underscore / leading-zero / empty / over-long forms: accept/reject and the "
         "denoted value are computed by Literals.tla; the real front end must agree and the compiled program must carry exactly that value.",
    note=PROG_NOTE + " `[u8;0] = 0x_` is not classified (the statement is about integer types).", design="5 (C11)")

CHECKS["C15"] = dict(
    category="model_checking",
    technique="TLC-enumerated value / type / map universe with the reference printer ShowValue; print-parse and JSON round trips decided on the real library",
    text="Values with special printed forms (byte arrays of every length, nested byte arrays, sub-byte ints, u128/u256, empty / singleton "
         "containers), all values of the C07 universe and maps of 0..6 names: parse(print(x)) = x for values, types, witness / param "
         "modules and JSON; module text sorted and insertion-order independent; duplicate names rejected.",
    note="Round trips are observations of the real code; TLA+ contributes the enumerated universe and the canonical text (compared as "
         "conformance: a different but round-tripping text is a drift note, not a violation).", design="5 (C15)")
CHECKS["C16"] = dict(
    category="model_checking",
    technique="all TLC program families re-run through parse -> print -> parse and through the full lifecycle on the printed text (expected verdict vectors from the reference semantics), in several token layouts",
    text="For every parseable family text: equal parse tree after print/parse; printed text accepted/rejected like the original and with "
         "the model's verdict vector.",
    note=PROG_NOTE, design="5 (C16)")
CHECKS["C17"] = dict(
    category="model_checking",
    technique="identifier table x naming roles enumerated by TLC on a template program whose meaning the model evaluates for every renaming; replay in several layouts",
    text="406 identifiers (reserved words + suffix x/7/_/_x, case flips, x-prefix, random) x 11 roles; each renamed program and its "
         "rewritten variant (alias inlined, parentheses, `-> ()`, block arms) must be accepted with the model's verdicts.",
    note=PROG_NOTE + " Identifiers that are exactly reserved words carry no expectation.", design="5 (C17)")

CHECKS["C06"] = dict(
    category="exploration",
    technique="TLA+ token-mutation machine (MC_Mutate: insert/delete/replace/duplicate over a grammar lexicon, depth 2) enumerated by TLC; every mutant pushed through all text entry points under catch_unwind / process isolation",
    text="~145k grammar-aware mutants of programs, modules, JSON maps, values and types in 7 layouts plus seeded raw random strings and bracket "
         "nests to depth 12: every entry point must return Ok or Err (no panic, abort, stack overflow, hang), including error rendering.",
    note="TLA+ supplies the systematically enumerated input space and the Ok/Err/Panicked lifecycle; the deciding observation is the real call. "
         "Resource exhaustion by astronomically large array sizes (e.g. `[u8; 4294967296]`, minutes of CPU / tens of GB) is outside the "
         "enumerated space (DESIGN.md section 9).", design="5 (C06)")
CHECKS["C20"] = dict(
    category="model_checking",
    technique="trace validation: records of rendered error messages (file code points, quoted rows, description) checked by TLC against TraceSpans.tla",
    text="Rejected near-miss programs, rejected literals and rejected token mutants in 6-7 layouts (CRLF, tabs, multi-byte comments, one token "
         "per line): every `N | text` row must be line N of the file (LF / CRLF terminators), consecutive, existing; description last.",
    note="The driver only splits the message into rows; the judgement (what the lines of a file are, what a valid record is) is the TLA+ "
         "specification's. Quick tier validates 5000 distinct records (all family records + an even sample of mutants).", design="5 (C20)")

CHECKS["C13"] = dict(
    category="model_checking",
    technique="golden jet signature table + closed-form jet meanings in TLA+ (bit-vector arithmetic), TLC-generated one-call programs replayed; model invariant CompileCorrect",
    text="All 471 jets: documented arity / grouping / result type accepted (reserved ones rejected). 304 closed-form jets: boundary and "
         "asymmetric arguments, result compared with the TLA+ meaning through Observe.",
    note=PROG_NOTE + " The golden table is the oracle for signatures (see DESIGN.md C13 oracle note).", design="5 (C13)")
CHECKS["C19"] = dict(
    category="model_checking",
    technique="TLA+ model of hash-map iteration as nondeterministic permutations (VIEW hides the choice) + byte comparison across repeated compilations, 8/32 processes and simc",
    text="Model: marker assignment, symbol set and Ok/Err are independent of iteration order. Code: examples + generated programs x "
         "--debug: one encoding / CMR across in-process repeats and separately started processes; simc prints base64 of exactly the "
         "library's bytes, non-zero exit with message iff the library errs.",
    note="Cross-process determinism is an observation of the real binaries; the number of processes bounds it.", design="5 (C19)")

PENDING = {}

ALL = ["C%02d" % i for i in range(1, 21)]


def main():
    hooks_commits = []
    try:
        out = subprocess.run(["git", "-C", "/repo", "log", "--format=%H %s"], stdout=subprocess.PIPE, text=True).stdout
        for line in out.splitlines():
            h, _, s = line.partition(" ")
            if s.startswith("verif-hooks:"):
                hooks_commits.append(h)
    except OSError:
        pass
    checks = []
    for pid in ALL:
        if pid not in CHECKS:
            continue
        c = CHECKS[pid]
        checks.append({
            "property_id": pid,
            "quick_cmd": f"./check {pid} --tier quick",
            "thorough_cmd": f"./check {pid} --tier thorough",
            "evidence_file": f"/verif/evidence/{pid}.json",
            "replay_cmd_template": f"./check {pid} --replay {{path}}",
            "engine": "tlc+vh",
            "level_claimed": {"category": c["category"], "text": c["text"], "design_ref": "DESIGN.md section " + c["design"]},
            "level_note": c["note"],
            "technique": c["technique"],
        })
    na = []
    for pid in ALL:
        if pid not in CHECKS:
            na.append({"property_id": pid, "reason": PENDING.get(pid, "check not built yet in this round; the TLA+ "
                                                                 "technique applies (see DESIGN.md section 5) - not claimed until built")})
    man = {
        "version": 1,
        "setup_cmd": "cd /verif/harness && cargo build --release --offline && cargo build --release --offline --manifest-path /repo/Cargo.toml --bin simc --target-dir /verif/harness/target/simc_build",
        "hooks": {
            "guard": "verif (cargo feature of crate simfony)",
            "enable": "the harness depends on simfony with features [\"serde\", \"verif\"]; cargo build --release --offline in /verif/harness",
            "baseline_off_cmd": "cd /repo && cargo test --workspace --no-fail-fast --offline",
            "source_commits": hooks_commits,
            "add_only": True,
        },
        "engines": [
            {"name": "tlc", "path": "/verif/spec", "serves_properties": sorted(CHECKS),
             "kind_free_text": "explicit TLA+ specification (reference layer + implementation-shaped machines), model-checked by TLC; "
                               "TLC also generates the behaviours that are replayed and validates recorded traces"},
            {"name": "vh", "path": "/verif/harness", "serves_properties": sorted(CHECKS),
             "kind_free_text": "Rust replay harness: steps the real library through TLC-generated behaviours, records hook traces"},
            {"name": "check", "path": "/verif/check", "serves_properties": sorted(CHECKS),
             "kind_free_text": "python driver: build -> TLC -> replay -> trace validation -> evidence"},
        ],
        "checks": checks,
        "not_applicable": na,
        "notes": "See DESIGN.md. Exit codes: 0 held, 1 VIOLATION line printed, 2 machinery failure.",
    }
    with open(os.path.join(VERIF, "MANIFEST.json"), "w") as f:
        json.dump(man, f, indent=1)
        f.write("\n")


if __name__ == "__main__":
    main()
