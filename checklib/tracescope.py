"""Implementation -> specification: validate the event traces recorded by the hooks of the cargo feature `verif`
(src/verif.rs) against spec/TraceScopes.tla with TLC.

The harness records the events of `TemplateProgram::new` and of the first `instantiate` of every case that carries
`"trace": true`.  All traces are concatenated (a `reset` event starts each compilation) and TLC walks them through
TraceScopes; the depth of the search is the number of events the specification could match.  The first unmatched event
is classified:

  a.get_var / a.push / a.pop / a.enter_main / a.leave_main / a.insert_var
        the typing-side scope stack does not resolve to the nearest binding, or is not used as a stack     -> C10
  a.insert_wit     a witness accepted outside main or for the second time                                   -> C04
  a.insert_param   one parameter name accepted at two types                                                 -> C12
  a.track, c.*     representation facts (ids, take/drop paths, builder stacks): the specification's
                   Codegen.tla no longer describes the code.  That is DRIFT of the model, not a violation: it is
                   reported as a note (and in the evidence) and the behavioural replay of the same programs decides.
"""
import json
import os
import re

from .core import ToolError, log, run_tlc, workdir, src_hash

SEMANTIC = {
    "a.get_var": "C10", "a.push": "C10", "a.pop": "C10", "a.enter_main": "C10", "a.leave_main": "C10",
    "a.insert_var": "C10", "a.insert_wit": "C04", "a.insert_param": "C12",
}

EXPLAIN = {
    "a.get_var": "the type checker's lookup of `{x}` returned found={found} type={ty}, which is not the nearest enclosing "
                 "binding in the specification's stack of frames",
    "a.insert_wit": "witness `{n}` was accepted although it is outside `main` or was already used",
    "a.insert_param": "parameter `{n}` was accepted at type {ty} although it was already recorded at another type",
    "a.pop": "a scope frame was popped from an empty stack",
    "a.enter_main": "the main scope was entered twice or not at the top level",
    "a.leave_main": "the main scope was left while frames were still open",
    "a.insert_var": "a variable was bound while no frame was open",
    "a.push": "unexpected frame push",
}


def _depth(prop, module_out):
    with open(module_out) as f:
        txt = f.read()
    m = re.search(r"The depth of the complete state graph search is (\d+)", txt)
    if not m:
        raise ToolError("cannot read the depth of the TraceScopes run:\n" + txt[-1500:])
    return int(m.group(1))


def validate(out, prop, cases, results, tier, seed, cap_events=None, max_rounds=8):
    """Returns a dict for the evidence.  Reports violations of `prop` through `out`."""
    cap = cap_events or (100000 if tier == "quick" else 1200000)
    slice_events = 150000
    wd = workdir(prop)
    progs = []
    total = 0
    for c in cases:
        r = results.get(c["id"], {})
        tr = r.get("trace")
        if not tr:
            continue
        if total + len(tr) + 1 > cap:
            continue
        progs.append((c, r, tr))
        total += len(tr) + 1
    info = {"programs": len(progs), "events": total, "accepted_events": 0, "rejections": [], "drift": []}
    if not progs:
        return info
    slices, cur, cur_n = [], [], 0
    for p3 in progs:
        if cur and cur_n + len(p3[2]) + 1 > slice_events:
            slices.append(cur)
            cur, cur_n = [], 0
        cur.append(p3)
        cur_n += len(p3[2]) + 1
    if cur:
        slices.append(cur)
    info["slices"] = len(slices)
    rounds = 0
    for progs in slices:
      budget = rounds + max_rounds
      while progs and rounds < budget:
          rounds += 1
          tpath = os.path.join(wd, "scopes.ndjson")
          starts = []
          n = 0
          with open(tpath, "w") as f:
              for (c, r, tr) in progs:
                  starts.append(n + 1)
                  f.write(json.dumps({"e": "reset"}) + "\n")
                  n += 1
                  for e in tr:
                      f.write(e + "\n")
                      n += 1
          run_tlc(prop, "TraceScopes", tier=tier, seed=seed, workers=1, extra_env={"TRACE": tpath}, timeout=1500)
          depth = _depth(prop, os.path.join(wd, "tlc_TraceScopes.out"))
          matched = depth - 1
          if matched >= n:
              info["accepted_events"] += n
              break
          # the first unmatched event is line matched+1
          bad_line = matched + 1
          k = max(i for i in range(len(starts)) if starts[i] <= bad_line)
          c, r, tr = progs[k]
          ev = json.loads(tr[bad_line - starts[k] - 1])
          kind = ev.get("e")
          owner = SEMANTIC.get(kind)
          src = r.get("src", "")
          rej = {"event": ev, "event_index_in_program": bad_line - starts[k], "source": src[:400], "class": owner or "drift"}
          info["accepted_events"] += starts[k] - 1
          if owner is None:
              info["drift"].append(rej)
              out.note(f"MODEL DRIFT (not a violation): TraceScopes.tla does not reproduce event {json.dumps(ev)} of the "
                       f"compilation of `{src[:120]}`; the behavioural replay of the same program decides the property")
          else:
              info["rejections"].append(rej)
              what = EXPLAIN.get(kind, "event rejected").format(**{k2: json.dumps(v) for k2, v in ev.items()})
              if owner == prop:
                  out.violation(f"{prop}:trace:{kind}:{src_hash(src)}",
                                f"trace of the compiler rejected by TraceScopes.tla at event {json.dumps(ev)}: {what}\n    source: {src[:300]}",
                                {"case": c, "observed": {k2: v for k2, v in r.items() if k2 != "trace"}, "trace": tr,
                                 "rejected_event": ev})
              else:
                  out.note(f"a recorded compiler trace contradicts {owner}, not {prop} ({what}); `./check {owner}` reports it")
          # go on with the rest: drop this program and what was already accepted
          progs = progs[k + 1:]
    info["tlc_rounds"] = rounds
    log(f"{prop}: trace validation {info['accepted_events']}/{info['events']} events of {info['programs']} compilations accepted, "
        f"{len(info['rejections'])} rejection(s), {len(info['drift'])} drift")
    return info
