"""C13 - jets are callable with documented arity, order and result type."""
from .progfam import *


def run(tier, seed):
    return run_prog_property(
        "C13", ["jets"], tier, seed,
        rule="MC_Jets.tla over the golden signature table JetTable.tla (471 jets as of the pinned tree: parameter list with "
             "grouping, result type, builtin aliases by name). sig: for every jet a one-call program with one witness per "
             "documented parameter and the result bound at the documented type must be accepted, instantiate and commit; "
             "`verify` and `check_sig_verify` must be rejected. sem: for each of the 304 jets with a closed-form meaning in "
             "Jets.tla (bit logic, comparison, add/subtract/multiply/divide families with carries and borrows, min/max/median, "
             "sub-word extraction, padding, sign extension, full and plain shifts, rotates), 10 (thorough: 24) asymmetric "
             "boundary argument tuples; the result is compared (Observe) with a witness holding the closed-form value (must "
             "succeed) and a perturbed value (must fail): a swapped argument, regrouped result or wrong jet changes a verdict.",
        assumptions=BASE_ASSUMPTIONS + ["the golden table pins arity / grouping / result type as of the pinned commit (the only "
                                       "machine-readable statement of them is src/jet.rs itself); a deliberate signature change "
                                       "needs the table to be regenerated (tools/gen_jettable.py)"])
