"""C17 - names are opaque: renaming and layout never change meaning."""
from .progfam import *


TRAILS = [" // end", "\n// end of file", " /* end */", "\n", " // é\r\n", "\t"]


def _layouts(cs, tier):
    """Layout variants (token separators) and, for a spread subset, text after the last token: a final line comment
    without line terminator, a block comment, line terminators."""
    out = layout_variants(cs, ("names",), [" ", "tight"] if tier == "quick" else [" ", "tight", "\n", " /* c */ ", "\t"])
    extra = []
    for i, c in enumerate(out):
        if c.get("family") == "names" and i % 5 == 0:
            d = dict(c)
            d["trail"] = TRAILS[(i // 5) % len(TRAILS)]
            d["lead"] = ("", "// first line\n", "\n\n", "/* a */ ")[(i // 5) % 4]
            extra.append(d)
    return out + extra


def run(tier, seed):
    return run_prog_property(
        "C17", ["names"], tier, seed, verdict_fams=("names",),
        expand=lambda cs: _layouts(cs, tier),
        rule="MC_Names.tla: a template program that uses a name in each of 10 naming roles (alias definition+use, function "
             "definition+call, fold function, for_while function, function parameter, let variable, tuple-pattern variable, "
             "variable in expression position, match-arm variable, witness, parameter). For every identifier of NameTable.tla "
             "(every reserved word of the grammar extended by x, 7, _, _x; first-letter case flipped; x-prefixed; 30 random "
             "identifiers - none exactly reserved) x every role: the program with that identifier in that role must be "
             "accepted and give the model's verdicts (names are plain strings for Static.tla / Dynamic.tla). Each case also "
             "carries the rewritten program (alias inlined, extra parentheses, `-> ()`, block arms; model invariant "
             "SubstEquivalent) and is rendered in several layouts (single spaces, no optional white space, ...).",
        assumptions=BASE_ASSUMPTIONS)
