"""C19 - same source, same bytes: in-process, across processes, via simc."""
import base64
import glob

from .core import *
from .progfam import tlc_family

SIMC_DIR = os.path.join(HARNESS, "target", "simc_build")
SIMC = os.path.join(SIMC_DIR, "release", "simc")


def build_simc():
    t0 = time.time()
    p = subprocess.run(["cargo", "build", "--release", "--offline", "--manifest-path", "/repo/Cargo.toml", "--bin", "simc",
                        "--target-dir", SIMC_DIR], env=env_base(), stdout=subprocess.PIPE, stderr=subprocess.STDOUT, text=True)
    if p.returncode != 0:
        sys.stdout.write(p.stdout[-4000:])
        raise ToolError("cargo build of simc failed")
    log(f"[build] simc rebuilt from /repo in {time.time() - t0:.1f}s")


def _u(n, width):
    return {"ty": {"k": "u", "n": width}, "v": {"k": "vu", "bits": [(n >> (width - 1 - i)) & 1 for i in range(width)]}}


MULTI_PARAM_TEMPLATES = [
    ("fn main() { assert!(jet::eq_32(param::FIRST, 1)); assert!(jet::eq_32(param::SECOND, 2)); "
     "assert!(jet::eq_32(param::THIRD, 3)); }",
     [["FIRST", _u(1, 32)], ["SECOND", _u(2, 32)], ["THIRD", _u(3, 32)]]),
    ("fn low() -> u8 { param::LOW }\nfn main() { let a: u8 = low(); let b: u8 = param::HIGH; let c: u16 = param::WIDE; "
     "let d: u8 = param::MID; assert!(jet::lt_8(a, d)); assert!(jet::lt_8(d, b)); assert!(jet::eq_16(c, 4660)); }",
     [["LOW", _u(3, 8)], ["HIGH", _u(200, 8)], ["WIDE", _u(4660, 16)], ["MID", _u(77, 8)], ["EXTRA", _u(9, 8)]]),
    ("fn main() { let p: (u8, u8) = (param::A, param::B); let q: (u8, u8) = (param::C, param::D); "
     "let (x, y): (u8, u8) = p; let (z, w): (u8, u8) = q; assert!(jet::eq_8(x, 10)); assert!(jet::eq_8(y, 20)); "
     "assert!(jet::eq_8(z, 30)); assert!(jet::eq_8(w, 40)); }",
     [["A", _u(10, 8)], ["B", _u(20, 8)], ["C", _u(30, 8)], ["D", _u(40, 8)]]),
]


def render(tokens):
    def flat(t):
        return "".join(flat(x) for x in t) if isinstance(t, list) else str(t)
    return " ".join(flat(t) for t in tokens)


def run(tier, seed):
    out = Outcome("C19", tier, seed, "model_checking")
    # (A) model: hash-map iteration orders as nondeterministic permutations
    m = run_tlc("C19", "MC_Determinism", tier=tier, seed=seed, workers=4)
    build_harness()
    build_simc()
    wd = workdir("C19")
    srcdir = os.path.join(wd, "src")
    os.makedirs(srcdir, exist_ok=True)
    for f in glob.glob(os.path.join(srcdir, "*")):
        os.remove(f)
    inputs = []
    for p in sorted(glob.glob("/repo/examples/*.simf")):
        inputs.append(p)
    # generated programs: tracked calls on one line, functions, folds, rejected programs, templates
    gen = []
    for fam, n in (("debug", 24), ("compile", 20), ("fold", 6), ("static", 24), ("params", 12)):
        cs, _ = tlc_family("C19", fam, tier, seed)
        gen += sample(cs, n if tier == "quick" else 4 * n)
    for i, c in enumerate(gen):
        p = os.path.join(srcdir, f"gen_{i:03d}.simf")
        with open(p, "w") as f:
            f.write(render(c["tokens"]))
        if c.get("args"):
            # a template: compiled with the arguments of the behaviour (sidecar file read by `vh commit`)
            with open(p + ".args.json", "w") as f:
                json.dump(c["args"], f)
        inputs.append(p)
    # templates with several parameters of one type: each argument must reach its own parameter in every process
    for i, (src, args) in enumerate(MULTI_PARAM_TEMPLATES):
        p = os.path.join(srcdir, f"tmpl_{i:03d}.simf")
        with open(p, "w") as f:
            f.write(src)
        with open(p + ".args.json", "w") as f:
            json.dump(args, f)
        inputs.append(p)
    listing = os.path.join(wd, "inputs.txt")
    with open(listing, "w") as f:
        for p in inputs:
            for d in ("0", "1"):
                f.write(f"{d}\t{p}\n")
    nproc = 8 if tier == "quick" else 32
    runs = []
    for k in range(nproc):
        p = subprocess.run([VH, "commit", listing, "3"], stdout=subprocess.PIPE, stderr=subprocess.STDOUT, text=True, env=env_base())
        if p.returncode != 0:
            raise ToolError("vh commit failed: " + p.stdout[-500:])
        runs.append([json.loads(l) for l in p.stdout.splitlines() if l.startswith("{")])
    n_inputs = len(runs[0])
    n_ok = n_err = 0
    for idx in range(n_inputs):
        recs = [r[idx] for r in runs]
        path, dbg = recs[0]["path"], recs[0]["dbg"]
        src = open(path).read()
        key = f"{os.path.basename(path)}:{'debug' if dbg else 'plain'}"
        encs = {e for r in recs for e in r["enc"]}
        cmrs = {c for r in recs for c in r["cmr"]}
        errs = [r for r in recs if r["err"]]
        if any(len(r["enc"]) > 1 or len(r["cmr"]) > 1 for r in recs):
            out.violation("C19:inproc:" + key, f"repeated compilation inside one process gives different bytes / CMR for {key}",
                          {"path": path, "debug": dbg, "source": src[:2000]})
        elif len(encs) > 1 or len(cmrs) > 1:
            out.violation("C19:xproc:" + key, f"{len(encs)} different encodings across {nproc} processes for {key}",
                          {"path": path, "debug": dbg, "source": src[:2000], "cmrs": sorted(cmrs)})
        if errs and len(errs) != len(recs) or (errs and encs):
            out.violation("C19:okerr:" + key, f"compilation of {key} succeeds in some processes and fails in others",
                          {"path": path, "debug": dbg, "source": src[:2000]})
        # simc (takes no arguments: templates compiled with arguments are compared across processes only)
        if os.path.exists(path + ".args.json"):
            n_ok += 1 if (encs and not errs) else 0
            n_err += 1 if errs else 0
            continue
        cmd = [SIMC, path] + (["--debug"] if dbg else [])
        p = subprocess.run(cmd, stdout=subprocess.PIPE, stderr=subprocess.PIPE, text=True, env=env_base())
        lib_ok = bool(encs) and not errs
        if lib_ok:
            n_ok += 1
            expect = "Program:\n" + base64.b64encode(bytes.fromhex(sorted(encs)[0])).decode() + "\n"
            if p.returncode != 0 or p.stdout != expect:
                out.violation("C19:simc:" + key, f"simc output for {key} is not `Program:` + base64 of the library's commit encoding "
                              f"(exit {p.returncode}, stdout {p.stdout[:80]!r}, stderr {p.stderr[:120]!r})",
                              {"path": path, "debug": dbg, "source": src[:2000], "expected": expect})
        else:
            n_err += 1
            if p.returncode == 0 or p.stderr.strip() == "":
                out.violation("C19:simc-err:" + key, f"the library rejects {key} but simc exits {p.returncode} with stderr {p.stderr[:100]!r}",
                              {"path": path, "debug": dbg, "source": src[:2000]})
    out.coverage = {
        "states": m.distinct, "transitions": m.generated,
        "traces_validated_against_impl": n_inputs,
        "inputs": n_inputs, "compiled_ok": n_ok, "rejected": n_err, "processes": nproc, "in_process_repeats": 3,
        "rule": "Model (MC_Determinism.tla): the call tracker, debug-symbol construction and argument check with every hash-map "
                "iteration order as a separate behaviour; marker of a site, symbol set and Ok/Err must not depend on the order "
                "(VIEW hides the permutation). Code: all shipped examples and a sample of TLC-generated programs (several tracked "
                "calls on one line, functions, folds, rejected programs, templates without arguments), each with --debug off/on: "
                f"3 compilations inside each of {nproc} separately started processes (fresh hash seeds) must give one encoding and one "
                "CMR; simc built from the current tree must print `Program:` + base64 of exactly those bytes and exit 0, or exit "
                "non-zero with a message exactly when the library returns an error.",
        "samples": [os.path.basename(r["path"]) + (":debug" if r["dbg"] else "") for r in sample(runs[0], 6)],
        "exhaustive": False,
    }
    out.assumptions = ["hash seeds differ between processes (std RandomState); the number of processes bounds what is observed",
                       "simc is built by cargo from /repo's working tree into /verif/harness/target/simc_build"]
    return out.finish()


def replay_one(body):
    """Re-run one recorded input: 3 compilations in each of 16 processes and the simc comparison."""
    build_simc()
    wd = workdir("C19")
    p = os.path.join(wd, "replay_input.simf")
    with open(p, "w") as f:
        f.write(body["source"])
    dbg = bool(body.get("debug"))
    listing = os.path.join(wd, "replay_inputs.txt")
    with open(listing, "w") as f:
        f.write(f"{'1' if dbg else '0'}\t{p}\n")
    encs, cmrs, errs, n = set(), set(), 0, 16
    for k in range(n):
        q = subprocess.run([VH, "commit", listing, "3"], stdout=subprocess.PIPE, stderr=subprocess.STDOUT, text=True, env=env_base())
        if q.returncode != 0:
            raise ToolError("vh commit failed: " + q.stdout[-500:])
        for l in q.stdout.splitlines():
            if l.startswith("{"):
                r = json.loads(l)
                encs |= set(r["enc"])
                cmrs |= set(r["cmr"])
                errs += 1 if r["err"] else 0
    found = []
    if len(encs) > 1 or len(cmrs) > 1:
        found.append(("C19:xproc", f"{len(encs)} different encodings / {len(cmrs)} CMRs across {n} processes"))
    if errs and (errs != n or encs):
        found.append(("C19:okerr", "compilation succeeds in some processes and fails in others"))
    q = subprocess.run([SIMC, p] + (["--debug"] if dbg else []), stdout=subprocess.PIPE, stderr=subprocess.PIPE, text=True, env=env_base())
    if encs and not errs:
        expect = "Program:\n" + base64.b64encode(bytes.fromhex(sorted(encs)[0])).decode() + "\n"
        if q.returncode != 0 or q.stdout != expect:
            found.append(("C19:simc", f"simc output differs from the library's commit encoding (exit {q.returncode})"))
    elif q.returncode == 0 or q.stderr.strip() == "":
        found.append(("C19:simc-err", f"the library rejects the input but simc exits {q.returncode}"))
    return found
