"""C19 - same source, same bytes: in-process, across processes, via simc."""
import base64
import glob

from .core import *
from .progfam import tlc_family

SIMC_DIR = os.path.join(HARNESS, "target", "simc_build")
SIMC = os.path.join(SIMC_DIR, "release", "simc")


def build_simc():
    t0 = time.time()
    p = subprocess.run(["cargo", "build", "--release", "--offline", "--manifest-path", "/repo/Cargo.toml", "--bin", "simc",
                        "--target-dir", SIMC_DIR], env=env_base(), stdout=subprocess.PIPE, stderr=subprocess.STDOUT, text=True)
    if p.returncode != 0:
        sys.stdout.write(p.stdout[-4000:])
        raise ToolError("cargo build of simc failed")
    log(f"[build] simc rebuilt from /repo in {time.time() - t0:.1f}s")


def render(tokens):
    def flat(t):
        return "".join(flat(x) for x in t) if isinstance(t, list) else str(t)
    return " ".join(flat(t) for t in tokens)


def run(tier, seed):
    out = Outcome("C19", tier, seed, "model_checking")
    # (A) model: hash-map iteration orders as nondeterministic permutations
    m = run_tlc("C19", "MC_Determinism", tier=tier, seed=seed, workers=4)
    build_harness()
    build_simc()
    wd = workdir("C19")
    srcdir = os.path.join(wd, "src")
    os.makedirs(srcdir, exist_ok=True)
    for f in glob.glob(os.path.join(srcdir, "*")):
        os.remove(f)
    inputs = []
    for p in sorted(glob.glob("/repo/examples/*.simf")):
        inputs.append(p)
    # generated programs: tracked calls on one line, functions, folds, rejected programs, templates
    gen = []
    for fam, n in (("debug", 24), ("compile", 20), ("fold", 6), ("static", 24), ("params", 4)):
        cs, _ = tlc_family("C19", fam, tier, seed)
        gen += sample(cs, n if tier == "quick" else 4 * n)
    for i, c in enumerate(gen):
        p = os.path.join(srcdir, f"gen_{i:03d}.simf")
        with open(p, "w") as f:
            f.write(render(c["tokens"]))
        inputs.append(p)
    listing = os.path.join(wd, "inputs.txt")
    with open(listing, "w") as f:
        for p in inputs:
            for d in ("0", "1"):
                f.write(f"{d}\t{p}\n")
    nproc = 8 if tier == "quick" else 32
    runs = []
    for k in range(nproc):
        p = subprocess.run([VH, "commit", listing, "3"], stdout=subprocess.PIPE, stderr=subprocess.STDOUT, text=True, env=env_base())
        if p.returncode != 0:
            raise ToolError("vh commit failed: " + p.stdout[-500:])
        runs.append([json.loads(l) for l in p.stdout.splitlines() if l.startswith("{")])
    n_inputs = len(runs[0])
    n_ok = n_err = 0
    for idx in range(n_inputs):
        recs = [r[idx] for r in runs]
        path, dbg = recs[0]["path"], recs[0]["dbg"]
        src = open(path).read()
        key = f"{os.path.basename(path)}:{'debug' if dbg else 'plain'}"
        encs = {e for r in recs for e in r["enc"]}
        cmrs = {c for r in recs for c in r["cmr"]}
        errs = [r for r in recs if r["err"]]
        if any(len(r["enc"]) > 1 or len(r["cmr"]) > 1 for r in recs):
            out.violation("C19:inproc:" + key, f"repeated compilation inside one process gives different bytes / CMR for {key}",
                          {"path": path, "debug": dbg, "source": src[:2000]})
        elif len(encs) > 1 or len(cmrs) > 1:
            out.violation("C19:xproc:" + key, f"{len(encs)} different encodings across {nproc} processes for {key}",
                          {"path": path, "debug": dbg, "source": src[:2000], "cmrs": sorted(cmrs)})
        if errs and len(errs) != len(recs) or (errs and encs):
            out.violation("C19:okerr:" + key, f"compilation of {key} succeeds in some processes and fails in others",
                          {"path": path, "debug": dbg, "source": src[:2000]})
        # simc
        cmd = [SIMC, path] + (["--debug"] if dbg else [])
        p = subprocess.run(cmd, stdout=subprocess.PIPE, stderr=subprocess.PIPE, text=True, env=env_base())
        lib_ok = bool(encs) and not errs
        if lib_ok:
            n_ok += 1
            expect = "Program:\n" + base64.b64encode(bytes.fromhex(sorted(encs)[0])).decode() + "\n"
            if p.returncode != 0 or p.stdout != expect:
                out.violation("C19:simc:" + key, f"simc output for {key} is not `Program:` + base64 of the library's commit encoding "
                              f"(exit {p.returncode}, stdout {p.stdout[:80]!r}, stderr {p.stderr[:120]!r})",
                              {"path": path, "debug": dbg, "source": src[:2000], "expected": expect})
        else:
            n_err += 1
            if p.returncode == 0 or p.stderr.strip() == "":
                out.violation("C19:simc-err:" + key, f"the library rejects {key} but simc exits {p.returncode} with stderr {p.stderr[:100]!r}",
                              {"path": path, "debug": dbg, "source": src[:2000]})
    out.coverage = {
        "states": m.distinct, "transitions": m.generated,
        "traces_validated_against_impl": n_inputs,
        "inputs": n_inputs, "compiled_ok": n_ok, "rejected": n_err, "processes": nproc, "in_process_repeats": 3,
        "rule": "Model (MC_Determinism.tla): the call tracker, debug-symbol construction and argument check with every hash-map "
                "iteration order as a separate behaviour; marker of a site, symbol set and Ok/Err must not depend on the order "
                "(VIEW hides the permutation). Code: all shipped examples and a sample of TLC-generated programs (several tracked "
                "calls on one line, functions, folds, rejected programs, templates without arguments), each with --debug off/on: "
                f"3 compilations inside each of {nproc} separately started processes (fresh hash seeds) must give one encoding and one "
                "CMR; simc built from the current tree must print `Program:` + base64 of exactly those bytes and exit 0, or exit "
                "non-zero with a message exactly when the library returns an error.",
        "samples": [os.path.basename(r["path"]) + (":debug" if r["dbg"] else "") for r in sample(runs[0], 6)],
        "exhaustive": False,
    }
    out.assumptions = ["hash seeds differ between processes (std RandomState); the number of processes bounds what is observed",
                       "simc is built by cargo from /repo's working tree into /verif/harness/target/simc_build"]
    return out.finish()
