"""C03 - accepted programs always compile to well-typed 1 -> 1 Simplicity."""
from .progfam import *


def run(tier, seed):
    return run_prog_property(
        "C03", ["compile", "deep", "static", "params", "witness", "fold", "forwhile"], tier, seed,
        rule="Every text of the families that TemplateProgram::new accepts is instantiated (debug off/on) with arguments "
             "consistent with parameters(): instantiate must be Ok (never `Failed to compile`, never a panic) and commit() "
             "must return a program of type 1 -> 1. Model side: CodegenTotal (the translation scheme never fails on a "
             "well-formed program) is an invariant of MC_Compile.",
        assumptions=BASE_ASSUMPTIONS)
