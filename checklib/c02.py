"""C02 - what satisfy returns spends the committed CMR."""
from .progfam import *


def run(tier, seed):
    return run_prog_property(
        "C02", ["compile", "deep", "shared", "witness"], tier, seed,
        rule="Same behaviours as C01 (the family binds every witness to a variable; in most programs at least one witness is "
             "never or only partly inspected). For every (program, debug mode, witness assignment): satisfy must succeed, "
             "redeem().cmr() = commit().cmr(), encode_to_vec() must be accepted by RedeemNode::decode with the same CMR, and "
             "BitMachine::exec must not panic (on the decoded and on the original node). The witness family (MC_Witness.tla) adds "
             "the maps that are not type-correct assignments: undeclared names, re-typed / swapped / hidden-type values, "
             "alone and combined - whenever satisfy ACCEPTS such a map (rightly or not) the same three clauses must hold.",
        assumptions=BASE_ASSUMPTIONS)
