"""C10 - a variable denotes its nearest, most recent binding."""
from .progfam import *


def run(tier, seed):
    return run_prog_property(
        "C10", ["scoping", "arraypat"], tier, seed, verdict_fams=("scoping", "arraypat"), trace_fams=("scoping",),
        rule="TLC enumerates binding structures (MC_Scoping.tla): blocks nested to depth 2-3 whose statements are drawn from 12 "
             "binder shapes over the two names a, b (plain, tuple, array, nested and ignore patterns, right-hand sides that read "
             "the old bindings, inner blocks whose bindings must vanish, match arms binding a or b, calls of functions whose "
             "parameters are called a, b). Every binder binds a distinct constant; the probe (a, b) / pa(a, b) / pb(a, b) / a "
             "match probe at the innermost point is the value of the whole expression. The reference (lexical scoping, "
             "Dynamic.tla) computes the pair that must be observed; per program 12 witness points: the prescribed pair (must "
             "succeed), the swapped pair and (1,2) (must fail unless equal). Model invariant: the scope/path translation of "
             "compile.rs (first pre-order occurrence in the input pattern) yields the same value on every structure. "
             "Implementation -> specification: the hooks of the cargo feature `verif` record every push / pop / insert / lookup of "
             "the typing-side scope stack (ast.rs) and of the code-generation scope (compile.rs) while the real compiler processes "
             "an evenly spaced subset of these programs; TLC validates the concatenated trace against TraceScopes.tla - a lookup "
             "must return the nearest binding of the specification's frame stack, and the recorded take/drop path must be the "
             "path that Codegen.tla's ScopeGet computes on the replayed scope.",
        assumptions=BASE_ASSUMPTIONS)
