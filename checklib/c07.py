"""C07 - types, values and casts follow the documented structural layout."""
from .core import *


def run(tier, seed):
    out = Outcome("C07", tier, seed, "model_checking")
    # (A) the code's explicit-stack algorithms, modelled action by action, realise the documented layout
    m = run_tlc("C07", "MC_LayoutMachines", tier=tier, seed=seed)
    # (A)+(B) reference layer consistency and emission of expected layouts for every type / value of the family
    fam = run_tlc("C07", "MC_LayoutFamily", tier=tier, seed=seed)
    cases = fam.cases
    results = run_replay("C07", cases)
    n_types = sum(1 for c in cases if c["kind"] == "layout_type")
    n_vals = sum(1 for c in cases if c["kind"] == "layout_val")
    for c in cases:
        r = results[c["id"]]
        if r.get("ok"):
            continue
        tyj = json.dumps(c["ty"], sort_keys=True)
        if c["kind"] == "layout_type":
            what = (f"structural type of `{r.get('ty')}` differs from the documented layout "
                    f"(expected {r.get('expected_len')} nodes, observed {r.get('observed_len')})")
            sig = "C07:type:" + src_hash(tyj)
        else:
            facts = [k for k in ("bits_ok", "typed_ok", "reconstruct_ok") if r.get(k) is False]
            what = (f"value `{r.get('value')}` of type `{r.get('ty')}`: {', '.join(facts) or r.get('panic', 'mismatch')}"
                    f" (reconstructed: {r.get('reconstructed')})")
            sig = "C07:val:" + src_hash(tyj + json.dumps(c["v"], sort_keys=True))
        if "panic" in r:
            what += f" [panic: {r['panic']}]"
        out.violation(sig, what, {"case": c, "observed": r})
    out.coverage = {
        "states": m.distinct + fam.distinct,
        "transitions": m.generated + fam.generated,
        "traces_validated_against_impl": len(cases),
        "types": n_types,
        "values": n_vals,
        "exhaustive": True,
        "rule": "TLC enumerates the type universe of MC_LayoutFamily.tla (all leaves, one constructor over leaves for "
                "every array size / list bound of the tier, sampled depth 2 and 3, builtin aliases) and up to MaxV values "
                "per type; every case carries the structural type (pre-order) and compact bits computed by the "
                "reference layer; the harness compares StructuralType::from, StructuralValue::from, is_of_type and "
                "Value::reconstruct of the real library.",
        "samples": sample([{"kind": c["kind"], "ty": c["ty"], **({"v": c["v"], "bits": c["bits"]} if "v" in c else {})}
                           for c in cases if len(json.dumps(c)) < 600], 4),
        "machines": "BTreeSlice::fold, Unfolder::unfold, Partition::fold, Combiner::unfold modelled step by step "
                    f"({m.distinct} states) and equal to the documented layout for every size of the tier",
    }
    out.assumptions = ["TLC explores the stated finite universe completely; nothing is claimed outside it",
                       "simplicity-lang's Final / Value accessors are trusted to expose the real tree"]
    return out.finish()
