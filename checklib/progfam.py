"""Program families: TLC models that emit `prog` behaviours, their replay, and the mapping of observed
differences to properties."""
import glob

from .core import *

# family name -> (TLC module, cfg or None)
FAMILIES = {
    "compile": ("MC_Compile", None),
    "scoping": ("MC_Scoping", None),
    "fold": ("MC_Fold", None),
    "forwhile": ("MC_ForWhile", None),
    "static": ("MC_Static", None),
    "witness": ("MC_Witness", None),
    "params": ("MC_Params", None),
    "prune": ("MC_Prune", None),
    "debug": ("MC_Debug", None),
    "literals": ("MC_Literals", None),
    "names": ("MC_Names", None),
    "jets": ("MC_Jets", None),
    "deep": ("MC_Deep", None),
    "shared": ("MC_Shared", None),
    "arraypat": ("MC_ArrayPat", None),
}


SEEDED_FAMILIES = ("deep",)


def spec_hash(module=None, cfg=None):
    """Hash of the model: the module, everything it EXTENDS (transitively, within spec/) and its cfg."""
    if module is None:
        files = sorted(glob.glob(os.path.join(SPEC, "*.tla")) + glob.glob(os.path.join(SPEC, "*.cfg")))
    else:
        seen, todo = set(), [module]
        while todo:
            m = todo.pop()
            p = os.path.join(SPEC, m + ".tla")
            if m in seen or not os.path.exists(p):
                continue
            seen.add(m)
            with open(p) as f:
                for line in f:
                    if line.startswith("EXTENDS"):
                        todo += [x.strip() for x in line[len("EXTENDS"):].split(",")]
        files = sorted(os.path.join(SPEC, m + ".tla") for m in seen) + [os.path.join(SPEC, (cfg or module) + ".cfg")]
    h = hashlib.sha256()
    for p in files:
        with open(p, "rb") as f:
            h.update(p.encode())
            h.update(f.read())
    return h.hexdigest()[:16]


def tlc_family(prop, fam, tier, seed, extra_env=None):
    """Run (or reuse: the model does not depend on /repo) the TLC model of a family.
    Returns (cases, stats dict)."""
    module, cfg = FAMILIES[fam]
    cdir = os.path.join(WORK, "cache")
    os.makedirs(cdir, exist_ok=True)
    key = f"{module}-{cfg or module}-{tier}-{seed}-{spec_hash(module, cfg)}"
    cpath = os.path.join(cdir, key + ".json")
    if os.path.exists(cpath) and not os.environ.get("VERIF_NO_CACHE"):
        with open(cpath) as f:
            d = json.load(f)
        log(f"[tlc] {module}: reusing model run of this spec version ({d['stats']['distinct']} states, "
            f"{len(d['cases'])} behaviours; TLC took {d['stats']['wall']:.1f}s)")
        return d["cases"], d["stats"]
    r = run_tlc(prop, module, cfg=cfg, tier=tier, seed=seed, extra_env=extra_env,
                timeout=900 if tier == "quick" else 3600, workers=8 if tier == "quick" else 12)
    stats = {"generated": r.generated, "distinct": r.distinct, "wall": r.wall, "module": module}
    with open(cpath, "w") as f:
        json.dump({"cases": r.cases, "stats": stats}, f)
    # runs of older versions of the specification are of no use any more
    prefix = f"{module}-{cfg or module}-{tier}-{seed}-"
    for old in os.listdir(cdir):
        if old.startswith(prefix) and old != key + ".json":
            try:
                os.remove(os.path.join(cdir, old))
            except OSError:
                pass
    return r.cases, stats


def issue_property(case, issue, all_issues):
    """Which property does an observed difference contradict?"""
    at, what = issue.get("at"), issue.get("what")
    if case.get("tag") == "names" and (at in ("new", "alt", "instantiate") or what == "verdict"):
        return "C17"
    if case.get("tag") == "jet" and (at in ("new", "instantiate", "commit") or what == "verdict"):
        return "C13"
    if at == "roundtrip":
        return "C16"
    if at == "new":
        if case.get("tag") == "literal":
            return "C11"
        if what == "panic":
            return "C06"
        if case.get("family") in ("scoping", "fold", "forwhile", "arraypat"):
            # a program of a single-construct family wrongly rejected / accepted: the statement about that construct
            # (binding structures C10, fold C08, for_while C09) is contradicted, and thereby C04
            return case.get("verdict_prop", "C04")
        return "C04"
    if at in ("parameters", "argmap", "alt"):
        return "C12"
    if at == "map":
        if what in ("cmr", "decode_accepted_map", "exec_panic_accepted_map"):
            return "C02"
        return "C05"
    if at == "debug":
        return "C14"
    if at in ("instantiate", "commit"):
        if case.get("inst") == "err" or (what == "err" and "rgument" in str(issue.get("msg", "")) and case.get("args_kind")):
            return "C12"
        if case.get("family") in ("fold", "forwhile", "scoping", "arraypat") and case.get("verdict_prop") and what != "panic":
            # the families written for one construct (fold, for_while, binding structures): a program of the family that
            # does not compile contradicts the statement about that construct (and C03 as well)
            return case["verdict_prop"]
        return "C03"
    if at == "run":
        if case.get("tag") == "params" and not issue.get("prune"):
            # a template with its arguments must behave like the literally substituted program (which the model runs)
            return "C12"
        if what == "satisfy_err":
            return "C18" if case.get("prune") else "C05"
        if what == "prune_accepts_failing":
            return "C18"
        if what in ("cmr", "decode", "exec_panic", "exec_limit"):
            return "C18" if case.get("prune") else "C02"
        if what == "verdict":
            if case.get("prune"):
                return "C18"
            if issue.get("dbg"):
                same = [i for i in all_issues if i.get("what") == "verdict" and not i.get("dbg")
                        and i.get("point") == issue.get("point") and i.get("env") == issue.get("env")]
                return case.get("verdict_prop", "C01") if same else "C14"
            return case.get("verdict_prop", "C01")
    return "C01"


def describe(issue):
    at, what, msg = issue.get("at"), issue.get("what"), str(issue.get("msg", ""))[:160]
    where = ""
    if at == "run":
        where = f" [witness point {issue.get('point')}, debug symbols {'on' if issue.get('dbg') else 'off'}]"
    elif "dbg" in issue:
        where = f" [debug symbols {'on' if issue.get('dbg') else 'off'}]"
    table = {
        ("new", "rejected"): "well-formed program rejected by TemplateProgram::new",
        ("new", "accepted"): "ill-formed program accepted by TemplateProgram::new",
        ("new", "panic"): "TemplateProgram::new panicked",
        ("parameters", "mismatch"): "parameters() differs from the param:: occurrences of the program",
        ("instantiate", "err"): "instantiate failed on an accepted program with consistent arguments",
        ("instantiate", "panic"): "instantiate panicked",
        ("instantiate", "accepted"): "instantiate accepted inconsistent arguments",
        ("commit", "panic"): "commit() panicked",
        ("commit", "arrow"): "commit() is not of type 1 -> 1",
        ("run", "satisfy_err"): "satisfy rejected a type-correct witness map",
        ("run", "prune_accepts_failing"): "satisfy_with_env returned a program although the unpruned program fails",
        ("run", "cmr"): "CMR of the redeem program differs from commit()",
        ("run", "decode"): "the library's own encoding is rejected by the Simplicity decoder",
        ("run", "exec_panic"): "the Bit Machine panicked",
        ("run", "exec_limit"): "the Bit Machine refused the program",
        ("run", "verdict"): "verdict differs from the source semantics",
        ("map", "satisfy_accepts_ill_typed"): "satisfy accepted a witness map with a value of another type than declared",
        ("map", "satisfy_rejects_well_typed"): "satisfy rejected a witness map whose declared names are all correctly typed",
        ("map", "satisfy_panic"): "satisfy panicked",
        ("map", "exec_panic"): "an accepted witness map made the Bit Machine panic",
        ("map", "delivery"): "a witness value did not reach the expression that names it",
        ("map", "decode"): "the encoding of an accepted witness map does not decode",
        ("argmap", "instantiate_rejects_consistent"): "instantiate rejected arguments consistent with parameters()",
        ("argmap", "instantiate_accepts_inconsistent"): "instantiate did not report a missing / mistyped argument",
        ("alt", "verdict"): "instantiated program and literally substituted program behave differently",
        ("alt", "rejected"): "the literally substituted program is rejected",
        ("alt", "panic"): "compiling the literally substituted program panicked",
    }
    if at in ("map", "argmap"):
        where = " [map " + json.dumps(issue.get("entries"))[:300] + "]"
    return f"{table.get((at, what), at + '/' + str(what))}{where}: {msg}"


def judge(out, prop, cases, results, accept_props=None):
    """Report the differences that contradict `prop`; mention the others as notes."""
    others = {}
    n_bad = 0
    for c in cases:
        r = results[c["id"]]
        if r.get("ok"):
            continue
        issues = r.get("issues", [])
        if "panic" in r or "abort" in r:
            issues = [{"at": "new", "what": "panic", "msg": r.get("panic", r.get("abort"))}]
        seen = set()
        for i in issues:
            p = issue_property(c, i, issues)
            if p != prop:
                others[p] = others.get(p, 0) + 1
                continue
            key = (i.get("at"), i.get("what"), bool(i.get("dbg")))
            if key in seen:
                continue
            seen.add(key)
            n_bad += 1
            src = r.get("src", "")
            sig = f"{prop}:{i.get('at')}:{i.get('what')}:{src_hash(src)}"
            out.violation(sig, describe(i) + "\n    source: " + src[:300], {"case": c, "observed": r})
    for p, n in sorted(others.items()):
        out.note(f"{n} difference(s) observed in this family contradict {p}, not {prop}; `./check {p}` reports them")
    return n_bad


def prog_samples(cases, results, n=3):
    res = []
    for c in sample([c for c in cases if c.get("kind") == "prog" and len(c.get("points", [])) > 0], n):
        r = results[c["id"]]
        res.append({"source": r.get("src"), "witness_names": c.get("wnames"),
                    "witness_points": len(c.get("points", [])),
                    "expected_verdicts": "".join("1" if v else "0" for v in c.get("verdicts", []))[:80],
                    "runs": r.get("runs")})
    return res


def layout_variants(cases, fams, seps):
    """Each case of the given families once per token separator (layout variant)."""
    out = []
    for c in cases:
        if c.get("family") in fams:
            for s in seps:
                d = dict(c)
                d["sep"] = s
                out.append(d)
        else:
            out.append(c)
    return out


def run_prog_property(prop, fams, tier, seed, rule, assumptions, select=None, extra_cov=None, verdict_fams=(),
                      expand=None, trace_fams=(), post=None):
    """The common shape of a check whose cases are `prog` behaviours of one or more families.
    verdict_fams: families in which a wrong verdict contradicts `prop` itself (default: C01)."""
    out = Outcome(prop, tier, seed, "model_checking")
    all_cases, stats = [], []
    for fam in fams:
        cases, st = tlc_family(prop, fam, tier, seed)
        if fam in SEEDED_FAMILIES and tier != "quick":
            # families drawn from a pseudo-random stream: the thorough tier explores four consecutive seeds
            for extra_seed in range(seed + 1, seed + 4):
                more, st2 = tlc_family(prop, fam, tier, extra_seed)
                cases = cases + more
                st = {"generated": st["generated"] + st2["generated"], "distinct": st["distinct"] + st2["distinct"],
                      "wall": st["wall"] + st2["wall"], "module": st["module"]}
        cases = [dict(c) for c in cases if (select is None or select(c))]
        for c in cases:
            c["family"] = fam
            if fam in verdict_fams:
                c["verdict_prop"] = prop
        all_cases += cases
        stats.append(st)
    if not all_cases:
        raise ToolError(f"no behaviours generated for {prop}")
    if expand:
        all_cases = expand(all_cases)
    traced = []
    if trace_fams:
        # implementation -> specification: record the hook events of an evenly spaced subset of the programs
        cand = [c for c in all_cases if c.get("family") in trace_fams and c.get("kind") == "prog"
                and c.get("sep", " ") == " "]
        want = 1500 if tier == "quick" else 20000
        stride = max(1, len(cand) // want)
        for c in cand[(seed % stride)::stride]:
            c["trace"] = True
            traced.append(c)
    results = run_replay(prop, all_cases)
    judge(out, prop, all_cases, results)
    trace_info = None
    if traced:
        from . import tracescope
        trace_info = tracescope.validate(out, prop, traced, results, tier, seed)
    runs = sum(r.get("runs", 0) for r in results.values())
    verd = [v for c in all_cases for v in c.get("verdicts", [])]
    out.coverage = {
        "states": sum(s["distinct"] for s in stats),
        "transitions": sum(s["generated"] for s in stats),
        "traces_validated_against_impl": len(all_cases),
        "programs": len(all_cases),
        "executions": runs,
        "expected_success_runs": sum(1 for v in verd if v),
        "expected_panic_runs": sum(1 for v in verd if not v),
        "exhaustive": True,
        "rule": rule,
        "models": [s["module"] for s in stats],
        "samples": prog_samples(all_cases, results),
    }
    if trace_info is not None:
        out.coverage["impl_traces_validated_against_spec"] = trace_info
        out.coverage["models"] = out.coverage["models"] + ["TraceScopes"]
    if extra_cov:
        out.coverage.update(extra_cov)
    if post:
        # a second phase of the same check (other case kinds); may report violations and add coverage entries
        post(out, tier, seed)
    out.assumptions = assumptions
    return out.finish()


BASE_ASSUMPTIONS = [
    "bounded: only the programs / witness points enumerated by the TLC models of the tier are covered",
    "the TLA+ reference semantics (Static.tla, Dynamic.tla) is the oracle; it is cross-checked inside TLC against the "
    "translation scheme + Simplicity semantics (Codegen.tla, Simplicity.tla) on every enumerated program",
    "simplicity-lang 0.4.0's decoder and Bit Machine are the observers named by the property statements",
]
