"""C01 - the compiled program behaves as the source semantics prescribe."""
from .progfam import *


def run(tier, seed):
    return run_prog_property(
        "C01", ["compile", "deep", "shared", "scoping", "fold", "forwhile", "literals"], tier, seed, trace_fams=("compile",),
        rule="TLC enumerates the program family of MC_Compile.tla (every expression form x small type universe, wrapped by "
             "Observe so that the value of the form under test is compared with an EXP witness) and, per program, every "
             "witness assignment of the bounded witness space. For each it checks inside the model that strict CBV "
             "evaluation (Dynamic.tla) and Simplicity evaluation of the translation (Codegen.tla) agree, and emits the "
             "expected verdict vector. The harness compiles the text with the real compiler (debug symbols off and on), "
             "satisfies, encodes, re-decodes and runs every assignment on the Bit Machine; a run whose success/failure "
             "differs from the vector is a violation.",
        assumptions=BASE_ASSUMPTIONS)
