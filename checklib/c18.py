"""C18 - pruning for an environment never changes the verdict."""
from .progfam import *


def run(tier, seed):
    return run_prog_property(
        "C18", ["prune"], tier, seed, verdict_fams=("prune",),
        rule="MC_Prune.tla: 13 program shapes that read the transaction environment (check_lock_height/time/distance/duration, "
             "tx_lock_height, tx_lock_distance, lock_time, current_sequence, tx_is_final) with witnesses on branches that are "
             "pruned for some environments, and with witnesses that are never or only partly inspected; 8 environments (lock "
             "time 0 / 100 / 499999999 / 500000000 / 1.7e9; sequence final, non-final+disabled, 10 blocks, 10 time units, "
             "disabled, 65535 blocks); 2-12 witness points each. For every (environment, point) satisfy_with_env(.., Some(env)) "
             "must return a program exactly when the reference semantics says the unpruned program succeeds under env; the "
             "returned program must keep the CMR, decode and succeed under env. Model invariants: EnvCompileCorrect and "
             "PruneNeutral (pruning a successful run preserves the abstract CMR and the pruned term still succeeds).",
        assumptions=BASE_ASSUMPTIONS + ["meaning of the lock-time jets written from the Simplicity/BIP-68/BIP-113 definitions"])
