"""C12 - template instantiation equals literal substitution."""
from .progfam import *


def run(tier, seed):
    return run_prog_property(
        "C12", ["params", "static"], tier, seed, trace_fams=("params",),
        rule="MC_Params.tla: programs with 0..4 parameters (types u8,(u1,u2),Option<u2>,[u2;2],List<u1,4>,Either<u1,u2>,bool,u16) "
             "used in main, in a called function, in a never-called function and twice in main. parameters() must equal the "
             "param:: occurrences found by Analyze; argument maps exact / extra / empty / each missing / each re-typed must be "
             "accepted or rejected as InstantiateOK says; the instantiated program and the program with the argument values "
             "written literally (SubstItems) must give the model's verdict on every witness assignment (model invariant "
             "SubstEquivalent). The near-miss family adds programs whose parameters occur with two types.",
        assumptions=BASE_ASSUMPTIONS)
