"""C14 - debug symbols are behaviour-neutral and point at the right call."""
from .progfam import *


def run(tier, seed):
    return run_prog_property(
        "C14", ["compile"], tier, seed,
        rule="Every program of the family is compiled with and without debug symbols and run on every witness assignment: "
             "both builds must give the verdict the source semantics prescribes (model invariant DebugNeutral: the wrapper "
             "`(false, args); assertl (drop body) marker` always takes the left branch).",
        assumptions=BASE_ASSUMPTIONS)
