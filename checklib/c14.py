"""C14 - debug symbols are behaviour-neutral and point at the right call."""
from .progfam import *


def _layouts(cs):
    """Token separators and, for the single-space and one-token-per-line layouts, text in front of the first token
    (blank lines, indentation, a comment line): positions are relative to the real start of the file."""
    out = layout_variants(cs, ("debug",), [" ", "tight", "\n", "\t ", "\n\n"])
    extra = []
    for i, c in enumerate(out):
        if c.get("family") == "debug" and c.get("sep") in (" ", "\n"):
            d = dict(c)
            d["lead"] = ("\n\n", "   ", "// head\n", "\r\n\t")[i % 4]
            extra.append(d)
    return out + extra


def run(tier, seed):
    return run_prog_property(
        "C14", ["debug", "compile", "deep", "fold", "forwhile"], tier, seed, trace_fams=("debug",),
        expand=_layouts,
        rule="(1) Behaviour neutrality: every program of the families is compiled with and without debug symbols and run on every "
             "witness assignment; both builds must give the verdict of the source semantics (model invariant DebugNeutral). "
             "(2) Markers: MC_Debug.tla places 16 tracked calls (dbg! of variable / literal / tuple / call / block / nested dbg!, "
             "unwrap, unwrap_left/right, assert!, panic!, jets) in main, in a function called twice, in a never-called function, "
             "in a match arm, in a fold body and in a for_while body, each rendered in four layouts (spaces, no optional white "
             "space, one token per line, tabs). The spec predicts the call sites that are part of the compiled program "
             "(ReachableSites) with text, kind and sample input values. The harness recomputes the marker CMRs "
             "SHA256(tag||tag||be32(i)), finds them in the debug build's assertl nodes, and requires: every marker resolves "
             "through debug_symbols() to the white-space-normalised text and kind of exactly one predicted site, every predicted "
             "site has a marker, a plain build has none, and TrackedCall::map_value reconstructs the sample values.",
        assumptions=BASE_ASSUMPTIONS + ["run-time marker values are taken from the model: simplicity-lang 0.4.0 has no execution tracker"])
