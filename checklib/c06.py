"""C06 - every text entry point is total: Ok or Err, never a panic."""
from .mutants import *


def run(tier, seed):
    out = Outcome("C06", tier, seed, "exploration")
    cases, st, n_raw = mutation_cases("C06", tier, seed)
    # the literal forms of C11 (over-long, empty, odd digit counts, 512-digit binary ...) are text entry points as well
    from .progfam import tlc_family
    lits, _ = tlc_family("C06", "literals", tier, seed)
    cases = cases + [{"kind": "total", "entry": "program", "tokens": c["tokens"], "sep": " "} for c in lits]
    # ... and so are the near misses of the static rules (C04): every one of them must be rejected with an error, not a panic
    near, _ = tlc_family("C06", "static", tier, seed)
    cases = cases + [{"kind": "total", "entry": "program", "tokens": c["tokens"], "sep": " "} for c in near]
    results = run_replay("C06", cases)
    calls = 0
    outcomes = {}
    distinct_rej = set()
    for c in cases:
        r = results[c["id"]]
        for call in r.get("calls", []):
            calls += 1
            outcomes[call["outcome"]] = outcomes.get(call["outcome"], 0) + 1
        if r.get("ok"):
            continue
        if "abort" in r:
            what = f"process aborted (stack overflow / abort) at entry point {c.get('entry')}: {json.dumps(c.get('src') or c.get('tokens'))[:300]}"
            out.violation("C06:abort:" + src_hash(json.dumps(c, sort_keys=True)), what, {"case": c, "observed": r})
            continue
        if "panic" in r:
            what = f"entry point {c.get('entry')} panicked: {r['panic']}"
            out.violation("C06:panic:" + src_hash(json.dumps(c, sort_keys=True)), what, {"case": c, "observed": r})
            continue
        for call in r.get("calls", []):
            if call["outcome"] == "panic":
                what = f"{call['call']} panicked ({call['msg'][:150]}) on: {r.get('src', '')[:300]!r}"
                out.violation("C06:" + call["call"] + ":" + src_hash(r.get("src", "")), what, {"case": c, "observed": r})
    texts = {results[c["id"]].get("src", "") for c in cases}
    out.coverage = {
        "evaluations": calls,
        "distinct_nontrivial": len(texts),
        "rule": "TLC enumerates (MC_Mutate.tla) every single-token insert / replace (95-entry lexicon: all grammar terminals, edge "
                "literals `_` `0x_` `0b_` `1_` `__1`, 80-digit run, CR, TAB, non-ASCII, unterminated comment openers, huge sizes) / "
                "delete / duplicate at every position of six seed texts (two programs, witness+param modules, JSON map, value, "
                "type) and a seed-selected slice of double mutants; programs and modules are rendered in 7 layouts (LF, CRLF, "
                "tabs, block / line comments with multi-byte characters, no optional white space). Entry points called per text: "
                "TemplateProgram::new -> instantiate (zero arguments for every reported parameter, debug off/on) -> commit -> "
                "satisfy(empty) -> encode; instantiate without arguments; WitnessValues / Arguments parse_from_str; serde_json "
                "from_str for both; Value::parse_from_str at 21 types; ResolvedType::parse_from_str; every error rendered to a "
                "string. distinct_nontrivial = number of distinct texts. Raw random strings and bracket nests up to depth 12 are "
                "added by the driver (raw_random_texts).",
        "outcomes": outcomes,
        "raw_random_texts": n_raw,
        "tlc_states": st["distinct"],
        "samples": [results[c["id"]].get("src", "")[:200] for c in sample(cases, 6)],
    }
    out.assumptions = ["a panic is observed through catch_unwind per call; aborts / stack overflows through the death of the "
                       "replay process (then isolated by bisection)",
                       "inputs are bounded to the mutation space above; nesting depth <= 12 as the property states"]
    return out.finish()
