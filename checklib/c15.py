"""C15 - values, witness/argument maps and types survive print-parse."""
from .core import *
from .progfam import tlc_family, FAMILIES

FAMILIES["valuetext"] = ("MC_ValueText", None)
FAMILIES["layoutfam"] = ("MC_LayoutFamily", None)


def run(tier, seed):
    out = Outcome("C15", tier, seed, "model_checking")
    cases, st = tlc_family("C15", "valuetext", tier, seed)
    # the type / value universe of the layout family, re-used for text round trips
    lcases, lst = tlc_family("C15", "layoutfam", tier, seed)
    extra = []
    for c in lcases:
        if c["kind"] == "layout_val":
            extra.append({"kind": "value_text", "ty": c["ty"], "v": c["v"], "text": ["dec:"]})
        elif c["kind"] == "layout_type":
            extra.append({"kind": "type_text", "ty": c["ty"], "text": None})
    cases = [dict(c) for c in cases] + [e for e in extra if e["kind"] == "value_text"]
    results = run_replay("C15", cases)
    drift = 0
    for c in cases:
        r = results[c["id"]]
        if r.get("canonical") is False:
            drift += 1
        if r.get("ok"):
            continue
        key = json.dumps({k: c.get(k) for k in ("kind", "ty", "v", "entries")}, sort_keys=True)
        if c["kind"] == "value_text":
            what = (f"value `{r.get('printed')}` of type `{r.get('ty')}` does not survive print/parse "
                    f"(text round trip {r.get('round_trip')}, JSON round trip {r.get('json_round_trip')}): {r.get('error')}")
        elif c["kind"] == "type_text":
            what = f"type `{r.get('printed')}`: round trip {r.get('round_trip')}, documented syntax parses {r.get('spec_text_parses')}: {r.get('error')}"
        else:
            what = "map: " + "; ".join(r.get("problems", [])) + f" [{r.get('module', '')[:200]}]"
        if "panic" in r:
            what += f" [panic: {r['panic']}]"
        out.violation("C15:" + c["kind"] + ":" + src_hash(key), what, {"case": c, "observed": r})
    if drift:
        out.note(f"conformance drift: {drift} values are printed in another (still round-tripping) text than the reference printer ShowValue")
    kinds = {}
    for c in cases:
        kinds[c["kind"]] = kinds.get(c["kind"], 0) + 1
    out.coverage = {
        "states": st["distinct"] + lst["distinct"], "transitions": st["generated"] + lst["generated"],
        "traces_validated_against_impl": len(cases), "by_kind": kinds, "exhaustive": True,
        "rule": "TLC enumerates (MC_ValueText.tla) byte arrays of every length of the tier, nested byte arrays, sub-byte integers, "
                "u128/u256, empty and singleton containers, nested options/eithers/lists, builtin aliases, up to MaxV values per type, "
                "plus all values of the C07 universe, and maps of 0..6 names. Per value: parse_from_str(to_string(v), ty) = v and the "
                "JSON form round-trips; per type: parse(print(t)) = t and the documented syntax denotes t; per map: module and JSON "
                "round trips for witness and param maps, module text independent of insertion order and sorted by name, a module / "
                "JSON text assigning a name twice rejected. The reference printer ShowValue is compared as conformance (drift note).",
        "samples": sample([{"kind": c["kind"], "ty": c.get("ty"), "printed": results[c["id"]].get("printed", results[c["id"]].get("module"))}
                           for c in cases], 5),
    }
    out.assumptions = ["bounded value universe", "round trips are decided by the real parser / printer; TLA+ supplies the enumerated inputs "
                       "and the canonical text"]
    return out.finish()
