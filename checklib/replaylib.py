"""`./check <id> --replay <file>`: run the failing input of a replay file again against the current /repo.

exit 1 + the VIOLATION line when the difference is still there, exit 0 when it no longer reproduces, exit 2 when the
file cannot be replayed.  A replay never rewrites the evidence file.
"""
import json
import os
import subprocess

from .core import Outcome, ToolError, build_harness, env_base, log, run_replay, workdir


class ReplayOutcome(Outcome):
    """Collects what `judge` / the trace validation report, without known-finding suppression or evidence."""

    def __init__(self, prop):
        super().__init__(prop, "replay", 0, "replay")
        self.known = []
        self.found = []

    def violation(self, sig, what, replay_obj):
        self.found.append((sig, what))

    def note(self, msg):
        pass


def generic(prop, path):
    try:
        with open(path) as f:
            obj = json.load(f)
    except (OSError, ValueError) as e:
        raise ToolError(f"cannot read replay file {path}: {e}")
    body = obj.get("case") or {}
    build_harness()
    found = []
    if isinstance(body, dict) and isinstance(body.get("case"), dict) and body["case"].get("kind"):
        c = dict(body["case"])
        c.pop("id", None)
        traced = "trace" in body or "rejected_event" in body
        if traced:
            c["trace"] = True
        res = run_replay(prop, [c], name="replay_one")
        r = res[c["id"]]
        if c["kind"] == "prog":
            from . import progfam
            out = ReplayOutcome(prop)
            progfam.judge(out, prop, [c], res)
            if traced:
                from . import tracescope
                tracescope.validate(out, prop, [c], res, "quick", 0)
            found = out.found
        elif prop == "C20":
            from . import c20
            found = c20.replay_one(c, r)
        else:
            if not r.get("ok"):
                found = [(obj.get("sig", prop), obj.get("what", "difference reproduced"))]
        log("observed now: " + json.dumps({k: v for k, v in r.items() if k != "trace"})[:1500])
    elif prop == "C19" and isinstance(body, dict) and "source" in body:
        from . import c19
        found = c19.replay_one(body)
    else:
        raise ToolError("this replay file does not carry a re-runnable case")
    if found:
        log(f"VIOLATION property={prop} replay={path}")
        for sig, what in found[:5]:
            log(f"  {what}")
        return 1
    log(f"{prop}: the recorded difference no longer reproduces on the current tree")
    return 0
