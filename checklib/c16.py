"""C16 - printing a parsed program and re-parsing it changes nothing."""
from .progfam import *


def run(tier, seed):
    def expand(cases):
        out = []
        for c in cases:
            c = dict(c)
            c["roundtrip"] = True
            c["dbg"] = [False]
            out.append(c)
        return layout_variants(out, ("static", "debug", "params"), [" ", "tight", " /* c */ ", " // c\n"])

    # a sample of the large families, the complete small ones
    def select(c):
        return True

    return run_prog_property(
        "C16", ["static", "debug", "params", "fold", "forwhile", "witness", "literals", "names", "compile"], tier, seed,
        expand=expand, select=select,
        rule="Every text of the program families (well-formed and near-miss programs, all expression forms, custom functions, "
             "fold / for_while, parameters, literals of every notation, identifiers of the C17 table), rendered with several "
             "layouts (single spaces, no optional white space, block and line comments between all tokens): if it parses, the "
             "printed parse tree must parse to an equal tree, the printed text must be accepted or rejected like the original "
             "and must behave identically - it is put through the same lifecycle with the same expected verdict vector of the "
             "reference semantics (instantiate, commit, every witness point).",
        assumptions=BASE_ASSUMPTIONS)
