"""C04 - the front end accepts exactly the well-typed programs."""
from .progfam import *


def run(tier, seed):
    return run_prog_property(
        "C04", ["static", "compile", "scoping"], tier, seed, trace_fams=("static",),
        rule="MC_Static.tla: eight program schemas (let pattern/type/expression/use; scopes and definition order; witnesses, "
             "parameters, main shape and items; calls with builtin and custom signatures, fold/for_while, casts, jets; match; "
             "containers and literals; odd sizes and builtin aliases; integer literals around 2^N at every width and position) whose slots range over alternative pools - every near miss differs from a well-formed "
             "program in one slot. The expected classification is computed by the static rules of Static.tla (written from the "
             "book), never by hand. TemplateProgram::new must accept exactly the programs WellFormed accepts; the well-formed "
             "families of C01 and C10 are included as `never rejected` cases.",
        assumptions=BASE_ASSUMPTIONS)
