"""C09 - for_while iterates 0,1,2,... and stops at the first Left."""
from .progfam import *


def run(tier, seed):
    return run_prog_property(
        "C09", ["forwhile"], tier, seed, trace_fams=("forwhile",), verdict_fams=("forwhile",),
        rule="MC_ForWhile.tla: for counter widths 1,2,4,8 (thorough: 16) a loop whose body records the order of the counters "
             "(acc'=3*acc+i), exits with Left(acc) when i equals the exit index carried by the read-only context and - in the "
             "poisoned variant - panics when evaluated for a counter beyond the exit. Witness points: every exit iteration "
             "for widths <= 4, boundary exits above (0,1,2,3,127..129,254,255), `never exit`; for each the EXP witness is the "
             "value of the reference loop (must succeed) and the opposite Either side (must fail). The model checks the "
             "task-stack construction of compile.rs (W(n+1)=W(n) W(n) adapt; for_while_0 / adapt_f) against the reference "
             "loop; the harness replays every point on the Bit Machine.",
        assumptions=BASE_ASSUMPTIONS)
