"""Shared machinery of the /verif/check driver: building the harness, running TLC, replaying, evidence."""
import hashlib
import json
import os
import re
import subprocess
import sys
import time

VERIF = os.path.dirname(os.path.dirname(os.path.abspath(__file__)))
SPEC = os.path.join(VERIF, "spec")
WORK = os.path.join(VERIF, "work")
HARNESS = os.path.join(VERIF, "harness")
VH = os.path.join(HARNESS, "target", "release", "vh")
EVIDENCE = os.path.join(VERIF, "evidence")
KNOWN = os.path.join(VERIF, "known_findings.json")

JAVA_OPTS = "-Xss1g -Dtlc2.tool.queue.IStateQueue=StateDeque"
TLA_CP = "/opt/veriftools/tla/tla2tools.jar:/opt/veriftools/tla/CommunityModules-deps.jar"


class ToolError(Exception):
    """Something in the machinery (not in the code under test) failed: exit 2."""


def log(msg):
    print(msg, flush=True)


def workdir(prop):
    d = os.path.join(WORK, prop)
    os.makedirs(d, exist_ok=True)
    return d


def env_base():
    e = dict(os.environ)
    e["CARGO_NET_OFFLINE"] = "true"
    return e


_built = False


def build_harness():
    """(Re)build the replay harness against /repo's current working tree, hooks enabled."""
    global _built
    if _built:
        return
    t0 = time.time()
    p = subprocess.run(
        ["cargo", "build", "--release", "--offline"],
        cwd=HARNESS,
        env=env_base(),
        stdout=subprocess.PIPE,
        stderr=subprocess.STDOUT,
        text=True,
    )
    if p.returncode != 0:
        sys.stdout.write(p.stdout[-6000:])
        raise ToolError("cargo build of the harness failed")
    _built = True
    log(f"[build] harness rebuilt against /repo in {time.time() - t0:.1f}s")


class TlcResult:
    def __init__(self):
        self.cases = []
        self.generated = 0
        self.distinct = 0
        self.ok = False
        self.output_tail = ""
        self.violated = None
        self.wall = 0.0
        self.coverage = {}


def run_tlc(prop, module, cfg=None, tier="quick", workers=8, seed=0, extra_env=None, simulate=None,
            timeout=900, coverage=False, java_opts=None, allow_violation=False):
    """Run TLC on spec/<module>.tla.  Collect REPLAY lines (deduplicated, in order)."""
    wd = workdir(prop)
    meta = os.path.join(wd, "tlc_" + module)
    cfgp = os.path.join(SPEC, (cfg or module) + ".cfg")
    # java is called directly (not through the `tlc` wrapper) so that -Xss also applies to the main thread, which
    # evaluates ASSUMEs and constant definitions (JAVA_TOOL_OPTIONS only reaches threads created later)
    cmd = ["java", "-Xss" + (java_opts or "512m"), "-XX:+UseParallelGC", "-cp", TLA_CP, "tlc2.TLC",
           "-workers", str(workers), "-metadir", meta, "-cleanup", "-noGenerateSpecTE", "-config", cfgp]
    if simulate:
        cmd += ["-simulate", simulate, "-seed", str(seed)]
    if coverage:
        cmd += ["-coverage", "1"]
    cmd.append(os.path.join(SPEC, module + ".tla"))
    env = env_base()
    env["VERIF_TIER"] = tier
    env["VERIF_SEED"] = str(seed)
    env.pop("JAVA_TOOL_OPTIONS", None)
    if extra_env:
        env.update({k: str(v) for k, v in extra_env.items()})
    t0 = time.time()
    res = TlcResult()
    outp = os.path.join(wd, "tlc_" + (cfg or module) + ".out")
    seen = set()
    with open(outp, "w") as outf:
        try:
            p = subprocess.Popen(["timeout", "--foreground", str(timeout)] + cmd, cwd=wd, env=env, stdout=subprocess.PIPE,
                                 stderr=subprocess.STDOUT, text=True, bufsize=1 << 20)
        except OSError as e:
            raise ToolError(f"cannot start tlc: {e}")
        tail = []
        prefix = '<<"REPLAY", "'
        for line in p.stdout:
            if line.startswith(prefix):
                inner = line.rstrip("\n")[len(prefix):-3]
                h = hashlib.blake2b(inner.encode(), digest_size=12).digest()
                if h in seen:
                    continue
                seen.add(h)
                try:
                    res.cases.append(json.loads(json.loads('"' + inner + '"')))
                except Exception as e:  # pragma: no cover
                    raise ToolError(f"cannot parse REPLAY line of {module}: {e}: {line[:200]}")
                continue
            outf.write(line)
            tail.append(line)
            if len(tail) > 60:
                tail.pop(0)
            m = re.match(r"(\d+) states generated, (\d+) distinct states found", line)
            if m:
                res.generated = int(m.group(1))
                res.distinct = int(m.group(2))
            m = re.match(r"The number of states generated: (\d+)", line)
            if m:
                res.generated = int(m.group(1))
            if "No error has been found" in line or "Finished computing" in line and simulate:
                res.ok = True
            m = re.match(r"Error: Invariant (\S+) is violated", line)
            if m:
                res.violated = m.group(1)
            m = re.match(r"Error: Action property (\S+) is violated", line)
            if m:
                res.violated = m.group(1)
        rc = p.wait()
    res.wall = time.time() - t0
    res.output_tail = "".join(tail)
    if rc == 124:
        raise ToolError(f"TLC timed out on {module} after {timeout}s")
    if simulate and rc == 0:
        res.ok = True
    if res.violated and allow_violation:
        return res
    if not res.ok or rc != 0:
        sys.stdout.write(res.output_tail[-3000:])
        raise ToolError(f"TLC failed on {module} (rc={rc}, violated={res.violated}); the model itself is "
                        f"inconsistent or broken - this is a defect of the specification, not of the code")
    log(f"[tlc] {module}: {res.generated} states generated, {res.distinct} distinct, "
        f"{len(res.cases)} behaviours emitted, {res.wall:.1f}s")
    return res


def run_replay(prop, cases, name="cases", threads=12, timeout=1800, chunk=4000):
    """Write the cases, run them through the real library (in chunks, each in its own process), return the
    result records by id.  A chunk whose process dies (abort, stack overflow) or hangs is bisected."""
    build_harness()
    wd = workdir(prop)
    for i, c in enumerate(cases):
        c["id"] = i
    with open(os.path.join(wd, name + ".ndjson"), "w") as f:
        for c in cases:
            f.write(json.dumps(c, separators=(",", ":")) + "\n")
    t0 = time.time()
    results = {}
    per_chunk_timeout = max(120, min(timeout, 900))

    def run_range(lo, hi, nthreads, tmo, tag):
        cin = os.path.join(wd, f"{name}.{tag}.ndjson")
        cout = os.path.join(wd, f"{name}.{tag}.results.ndjson")
        with open(cin, "w") as f:
            for i in range(lo, hi):
                f.write(json.dumps(cases[i], separators=(",", ":")) + "\n")
        p = subprocess.run(["timeout", "--foreground", str(tmo), VH, "replay", cin, cout, str(nthreads)], cwd=wd, env=env_base(),
                           stdout=subprocess.PIPE, stderr=subprocess.STDOUT, text=True)
        if p.returncode != 0:
            return p.returncode
        with open(cout) as f:
            for line in f:
                r = json.loads(line)
                results[r["id"]] = r
        return 0

    def bisect(lo, hi, rc):
        if hi - lo == 1:
            why = ("the call did not return within 20 s (hang / resource exhaustion)" if rc == 124
                   else "process aborted (stack overflow / abort) on this behaviour")
            results[cases[lo]["id"]] = {"id": cases[lo]["id"], "kind": cases[lo].get("kind"), "ok": False, "abort": why}
            return
        mid = (lo + hi) // 2
        for (a, b) in ((lo, mid), (mid, hi)):
            r = run_range(a, b, 4, 20 + (b - a) // 20, "bisect")
            if r != 0:
                bisect(a, b, r)

    for lo in range(0, len(cases), chunk):
        hi = min(lo + chunk, len(cases))
        rc = run_range(lo, hi, threads, per_chunk_timeout, "chunk")
        if rc != 0:
            log(f"[replay] harness process died or hung (rc={rc}) in behaviours {lo}..{hi}; isolating")
            bisect(lo, hi, rc)
    with open(os.path.join(wd, name + ".results.ndjson"), "w") as f:
        for i in range(len(cases)):
            if i in results:
                f.write(json.dumps(results[i]) + "\n")
    if len(results) != len(cases):
        raise ToolError(f"harness returned {len(results)} results for {len(cases)} cases")
    for r in results.values():
        if "tool_error" in r:
            raise ToolError(f"harness tool error on case {r['id']}: {r['tool_error']}")
    log(f"[replay] {len(cases)} behaviours replayed against the real library in {time.time() - t0:.1f}s")
    return results


def load_known():
    if not os.path.exists(KNOWN):
        return []
    with open(KNOWN) as f:
        return json.load(f).get("findings", [])


class Outcome:
    """Collects violations / known findings / notes of one check run and writes evidence."""

    def __init__(self, prop, tier, seed, level):
        self.prop = prop
        self.tier = tier
        self.seed = seed
        self.level = level
        self.t0 = time.time()
        self.violations = []
        self.known_hits = []
        self.notes = []
        self.coverage = {}
        self.assumptions = []
        self.known = [k for k in load_known() if k.get("property") == prop and k.get("status") == "known"]

    def violation(self, sig, what, replay_obj):
        """Report a difference between the real code and the property.  sig identifies the failing input."""
        for k in self.known:
            if k.get("sig") == sig:
                if sig not in [h[0] for h in self.known_hits]:
                    self.known_hits.append((sig, k.get("what", what)))
                return
        if len(self.violations) >= 200:
            self.violations.append((sig, what, None))
            return
        d = os.path.join(workdir(self.prop), "replay")
        os.makedirs(d, exist_ok=True)
        path = os.path.join(d, f"{len(self.violations):04d}.json")
        with open(path, "w") as f:
            json.dump({"property": self.prop, "sig": sig, "what": what, "case": replay_obj}, f, indent=1)
        self.violations.append((sig, what, path))

    def note(self, msg):
        self.notes.append(msg)
        log("NOTE: " + msg)

    def finish(self):
        wall = time.time() - self.t0
        cov = dict(self.coverage)
        cov.setdefault("samples", [])
        ev = {
            "property_id": self.prop,
            "tier": self.tier,
            "seed": self.seed,
            "level": self.level,
            "coverage": cov,
            "assumptions": self.assumptions,
            "wall_s": round(wall, 2),
            "violations": len(self.violations),
            "known_findings_hit": [h[0] for h in self.known_hits],
            "notes": self.notes,
        }
        os.makedirs(EVIDENCE, exist_ok=True)
        with open(os.path.join(EVIDENCE, self.prop + ".json"), "w") as f:
            json.dump(ev, f, indent=1, sort_keys=True)
            f.write("\n")
        for sig, what in self.known_hits:
            log(f"KNOWN-FINDING: property={self.prop} {what} [{sig}]")
        shown = 0
        for sig, what, path in self.violations:
            if path is None:
                continue
            if shown < 25:
                log(f"VIOLATION property={self.prop} replay={path}")
                log(f"  {what}")
            shown += 1
        if self.violations:
            log(f"{self.prop}: {len(self.violations)} violation(s) in {wall:.1f}s")
            return 1
        log(f"{self.prop}: held on everything explored ({self.tier}, {wall:.1f}s)")
        return 0


def src_hash(text):
    return hashlib.sha256(text.encode()).hexdigest()[:12]


def sample(xs, n):
    """n evenly spread elements of xs."""
    if len(xs) <= n:
        return list(xs)
    step = len(xs) / n
    return [xs[int(i * step)] for i in range(n)]
