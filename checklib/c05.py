"""C05 - satisfy type-checks witnesses and delivers each value to its name."""
from .progfam import *


def run(tier, seed):
    return run_prog_property(
        "C05", ["witness", "compile", "shared", "fold"], tier, seed, verdict_fams=("shared", "fold"),
        rule="MC_Witness.tla: programs with 0..8 witnesses whose declared types rotate through classes of layout-equal but "
             "different types ({u16,(u8,u8),[u8;2],((u4,u4),u8)}, {bool,u1,Either<(),()>,Option<()>}, {u8,(u4,u4),[u4;2]}, "
             "{Option<u8>,Either<(),u8>}); every witness is compared with its own literal. Per program the maps: exact, exact + "
             "undeclared names, each name missing, each name with a value of another layout, each name re-typed with every type "
             "of its layout class, every pair of names swapped, the empty map. The rule `Err iff a supplied declared name has "
             "another type (nominal)` is the TLA+ operator SatisfyOK; on Ok with all names present the verdict of the reference "
             "semantics must be observed (a swapped pair of same-typed values must fail). The C01 family adds `type-correct "
             "assignments are never rejected`. List witnesses are observed through MC_Fold.tla: the list (every length; elements "
             "u8, (u1,u8), Option<u2>, (), rows List<u8,4>, pairs with a component the program never reads) is supplied as a "
             "witness and an order-sensitive fold of it must give the value the reference fold gives on the SUPPLIED list.",
        assumptions=BASE_ASSUMPTIONS + ["the outcome of satisfy for a map that omits a used witness is not constrained by the property"])
