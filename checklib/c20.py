"""C20 - compile errors quote the source lines they point at."""
import re

from .mutants import *
from .progfam import tlc_family

QUOTE = re.compile(r"^ *(\d+) \| (.*)$", re.S)
HEAD = re.compile(r"^ +\|$")
LAST = re.compile(r"^ +\|( *)(\^*) (.*)$", re.S)


def structure(src, msg):
    """Turn a rendered message into a record (no judgement): quoted lines, description, shape flags."""
    lines = msg.split("\n")
    rec = {"file": [ord(c) for c in src], "quotes": [], "desc": [], "wellformed": False}
    if len(lines) < 2 or not HEAD.match(lines[0]):
        rec["desc"] = [ord(c) for c in msg]
        rec["bare"] = True
        return rec
    body = lines[1:]
    # the last row that looks like `  |   ^^^ description` ends the message (the description may contain newlines)
    k = None
    for i, l in enumerate(body):
        if not QUOTE.match(l) and LAST.match(l):
            k = i
            break
    if k is None:
        return rec
    for l in body[:k]:
        m = QUOTE.match(l)
        if not m:
            return rec
        rec["quotes"].append({"n": int(m.group(1)), "text": [ord(c) for c in m.group(2)]})
    m = LAST.match("\n".join(body[k:]))
    rec["desc"] = [ord(c) for c in m.group(3)]
    rec["wellformed"] = True
    return rec


def run(tier, seed):
    out = Outcome("C20", tier, seed, "model_checking")
    cases, st, n_raw = mutation_cases("C20", tier, seed)
    cases = [c for c in cases if c.get("entry") == "program"]
    # the rejected near misses / literals of C04 and C11 in the error-relevant layouts
    fam_cases = []
    for fam in ("static", "literals"):
        cs, _ = tlc_family("C20", fam, tier, seed)
        for c in cs:
            if c.get("accept") is False:
                for sep in (" ", "\n", "\r\n", "\t", " /* é漢 */ ", " // é\r\n", " \n", "\n\n", "\t \r\n"):
                    fam_cases.append({"kind": "total", "entry": "program", "tokens": c["tokens"], "sep": sep,
                                      "lead": ("", "\n\n", "  \n", "\r\n")[len(fam_cases) % 4]})
    cases = fam_cases + cases
    results = run_replay("C20", cases)
    events, origin = [], []
    bare = 0
    for c in cases:
        r = results[c["id"]]
        src = r.get("src", "")
        for call in r.get("calls", []):
            if call["call"] == "new" and call["outcome"] == "err" and src != "":
                rec = structure(src, call["msg"])
                if rec.pop("bare", False):
                    bare += 1
                    out.violation("C20:bare:" + src_hash(src), f"error of a non-empty file is rendered without source location: "
                                  f"{call['msg'][:120]!r} for {src[:200]!r}", {"case": c, "observed": r})
                    continue
                events.append(rec)
                origin.append((c, r, call["msg"]))
    if not events:
        raise ToolError("no rejected text to validate")
    # distinct records only; the quick tier validates an evenly spread sample of the mutants (all family records)
    seen, ev2, or2 = set(), [], []
    for e, o in zip(events, origin):
        k = (bytes(json.dumps(e, separators=(",", ":")), "utf8"))
        h = hashlib.blake2b(k, digest_size=12).digest()
        if h in seen:
            continue
        seen.add(h)
        ev2.append(e)
        or2.append(o)
    n_fam = sum(1 for (c, _, _) in or2 if c in fam_cases)
    cap = 5000 if tier == "quick" else 60000
    if len(ev2) > cap:
        keep_fam = [(e, o) for e, o in zip(ev2, or2) if o[0].get("depth") is None]
        rest = [(e, o) for e, o in zip(ev2, or2) if o[0].get("depth") is not None]
        keep_fam = sample(keep_fam, cap // 2)
        rest = sample(rest, max(1, cap - len(keep_fam)))
        ev2 = [e for e, _ in keep_fam + rest]
        or2 = [o for _, o in keep_fam + rest]
    total_events = len(events)
    events, origin = ev2, or2
    # trace validation by TLC against TraceSpans.tla, in slices (one JVM each)
    wd = workdir("C20")
    total_states = 0
    accepted = 0
    SL = 6000
    for lo in range(0, len(events), SL):
        sl = events[lo:lo + SL]
        tpath = os.path.join(wd, f"trace_{lo}.ndjson")
        with open(tpath, "w") as f:
            for e in sl:
                f.write(json.dumps(e, separators=(",", ":")) + "\n")
        r = run_tlc("C20", "TraceSpans", tier=tier, seed=seed, workers=1, extra_env={"TRACE": tpath}, timeout=900,
                    java_opts="1g")
        depth = None
        with open(os.path.join(wd, "tlc_TraceSpans.out")) as f:
            for line in f:
                m = re.search(r"depth of the complete state graph search is (\d+)", line)
                if m:
                    depth = int(m.group(1))
        if depth is None:
            raise ToolError("cannot read the depth of the TraceSpans run")
        total_states += r.distinct
        consumed = depth - 1
        accepted += consumed
        if consumed < len(sl):
            c, rr, msg = origin[lo + consumed]
            src = rr.get("src", "")
            what = ("rendered error does not quote the source lines it points at (TraceSpans rejects the record): message "
                    f"{msg[:300]!r} for file {src[:300]!r}")
            out.violation("C20:quote:" + src_hash(src), what, {"case": c, "observed": rr, "record": sl[consumed]})
            # validate the rest of the slice after the rejected record
            rest = events[lo + consumed + 1: lo + SL]
            # (kept simple: the remaining records of this slice are validated in the next check run once the defect is gone)
    multi = sum(1 for e in events if len(e["quotes"]) > 1)
    crlf = sum(1 for e in events if 13 in e["file"])
    nonascii = sum(1 for e in events if any(cp > 127 for cp in e["file"]))
    out.coverage = {
        "states": total_states, "transitions": total_states,
        "traces_validated_against_impl": accepted,
        "events": len(events), "rejected_texts_observed": total_events, "multi_line_spans": multi, "files_with_CR": crlf, "files_with_non_ascii": nonascii,
        "rule": "Every rejected program text of the C04 near-miss family, of the C11 literal family (6 layouts: spaces, one token per "
                "line with LF / CRLF, tabs, multi-byte block comments, line comments ending in CRLF) and of the C06 token mutants "
                "of two seed programs (7 layouts) is compiled; the rendered message is split by the driver into a record (quoted "
                "`N | text` rows, description) without judging it; TLC validates the trace of records against TraceSpans.tla: every "
                "quoted text equals line N of the file (lines end at LF or CR LF), numbers consecutive and existing, description "
                "non-empty. A record TLC cannot consume is a violation.",
        "samples": [{"file": "".join(map(chr, e["file"]))[:160], "quoted_lines": [q["n"] for q in e["quotes"]],
                     "description": "".join(map(chr, e["desc"]))[:80]} for e in sample(events, 4)],
        "exhaustive": True,
    }
    out.assumptions = ["the driver's splitting of the message into rows (regular expressions in checklib/c20.py) is trusted",
                       "errors located after the last line terminator quote no line; nothing is required of them beyond the description"]
    return out.finish()


def replay_one(c, r):
    """Re-validate the error messages of one recorded text against TraceSpans.tla."""
    src = r.get("src", "")
    recs = []
    for call in r.get("calls", []):
        if call["call"] == "new" and call["outcome"] == "err" and src != "":
            rec = structure(src, call["msg"])
            if rec.pop("bare", False):
                return [("C20:bare", "error of a non-empty file is rendered without source location: " + call["msg"][:200])]
            recs.append((rec, call["msg"]))
    if not recs:
        return []
    wd = workdir("C20")
    tpath = os.path.join(wd, "replay_trace.ndjson")
    with open(tpath, "w") as f:
        for rec, _ in recs:
            f.write(json.dumps(rec, separators=(",", ":")) + "\n")
    run_tlc("C20", "TraceSpans", workers=1, extra_env={"TRACE": tpath}, timeout=300, java_opts="1g")
    depth = None
    with open(os.path.join(wd, "tlc_TraceSpans.out")) as f:
        for line in f:
            m = re.search(r"depth of the complete state graph search is (\d+)", line)
            if m:
                depth = int(m.group(1))
    if depth is None:
        raise ToolError("cannot read the depth of the TraceSpans run")
    if depth - 1 < len(recs):
        return [("C20:quote", "rendered error does not quote the source lines it points at: " + recs[depth - 1][1][:300])]
    return []
