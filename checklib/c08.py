"""C08 - fold consumes list elements first to last, each exactly once."""
from .progfam import *


def run(tier, seed):
    return run_prog_property(
        "C08", ["fold"], tier, seed, trace_fams=("fold",), verdict_fams=("fold",),
        rule="MC_Fold.tla: for every bound N of the tier and five fold functions (acc'=3*acc+e mod 256; a pair accumulator "
             "remembering the last two elements; a function panicking on a poisoned element; element types (u1,u8) and "
             "Option<u2>) one program `fold::<f,N>(witness::L, init)` whose witness points are lists of every length "
             "(all lengths up to 16/64, boundary lengths above) with distinct asymmetric elements, each with EXP = the value "
             "of the reference fold f(e_k,..f(e_1,init)) (must succeed) and EXP = a different value (must fail); plus "
             "programs with literal and computed lists of every length for N <= 16. In the model the doubling construction "
             "of compile.rs (f_array / f_fold, ListFoldT in Codegen.tla) is checked equal to the reference fold on all of "
             "them; the harness replays every point against compiler + Bit Machine.",
        assumptions=BASE_ASSUMPTIONS)
