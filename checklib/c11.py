"""C11 - integer literals denote their mathematical value."""
from .progfam import *


def run(tier, seed):
    return run_prog_property(
        "C11", ["literals"], tier, seed, verdict_fams=("literals",),
        rule="MC_Literals.tla: for every width N in {1,..,256}: decimal 0, 1, 2^N-1, 2^N, 2^N+1, an 80-digit number, fixed large "
             "samples (also of the next width), underscore placements (leading, trailing, inner, double), leading zeros (2 and 70), "
             "empty-digit forms `_` `__`; binary with N, N-1, N+1, 2N digits, underscores, `0b_`; hexadecimal with N/4, N/4-1, "
             "N/4+1, 2*N/4 digits, upper/lower case, underscores, `0x_`, widths below 8; hex at [u8;n] with 2n / 2n+2 / odd digits, "
             "at [u8;0], [u16;1], [u4;2], tuples; decimal at non-integer types. Literals.tla (decimal value by bit-vector "
             "arithmetic, cross-checked in TLC against generated decimal expansions of 2^N) decides accept/reject and the value; "
             "accepted literals are compared (Observe) with a witness holding that value (must succeed) and the value with one "
             "bit flipped (must fail); rejected ones must be rejected by TemplateProgram::new.",
        assumptions=BASE_ASSUMPTIONS)
