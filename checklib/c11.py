"""C11 - integer literals denote their mathematical value."""
from .progfam import *


def _printed_integers(out, tier, seed):
    """Last clause of C11: the text the library prints for an integer (and for a byte array) parses back to it.
    The values are those of the C15 value universe (MC_ValueText.tla) at integer types and [u8; n]."""
    from . import c15  # registers the valuetext family
    cases, st = tlc_family("C11", "valuetext", tier, seed)
    sel = [dict(c) for c in cases if c.get("kind") == "value_text"
           and (c["ty"].get("k") == "u" or (c["ty"].get("k") == "arr" and c["ty"].get("e", {}).get("k") == "u" and c["ty"]["e"].get("n") == 8))]
    for c in sel:
        c.pop("id", None)
    results = run_replay("C11", sel, name="printed")
    bad = 0
    for c in sel:
        r = results[c["id"]]
        if r.get("ok"):
            continue
        bad += 1
        key = json.dumps({"ty": c["ty"], "v": c["v"]}, sort_keys=True)
        out.violation("C11:print:" + src_hash(key),
                      f"the text `{r.get('printed')}` printed for a value of type `{r.get('ty')}` does not parse back to it "
                      f"(round trip {r.get('round_trip')}): {r.get('error', r.get('panic', ''))}", {"case": c, "observed": r})
    out.coverage["printed_integers_reparsed"] = len(sel)
    out.coverage["states"] = out.coverage.get("states", 0) + st["distinct"]


def run(tier, seed):
    return run_prog_property(
        "C11", ["literals"], tier, seed, verdict_fams=("literals",), post=_printed_integers,
        rule="MC_Literals.tla: for every width N in {1,..,256}: decimal 0, 1, 2^N-1, 2^N, 2^N+1, an 80-digit number, fixed large "
             "samples (also of the next width), underscore placements (leading, trailing, inner, double), leading zeros (2 and 70), "
             "empty-digit forms `_` `__`; binary with N, N-1, N+1, 2N digits, underscores, `0b_`; hexadecimal with N/4, N/4-1, "
             "N/4+1, 2*N/4 digits, upper/lower case, underscores, `0x_`, widths below 8; hex at [u8;n] with 2n / 2n+2 / odd digits, "
             "at [u8;0], [u16;1], [u4;2], tuples; decimal at non-integer types. Literals.tla (decimal value by bit-vector "
             "arithmetic, cross-checked in TLC against generated decimal expansions of 2^N) decides accept/reject and the value; "
             "accepted literals are compared (Observe) with a witness holding that value (must succeed) and the value with one "
             "bit flipped (must fail); rejected ones must be rejected by TemplateProgram::new.",
        assumptions=BASE_ASSUMPTIONS)
