SPECIFICATION Spec
CONSTANTS
  Families <- FoldFamilies
  ProgramsOf <- FoldProgramsOf
INVARIANT GeneratedWellFormed
INVARIANT WitnessTypesAsDeclared
INVARIANT CompileCorrect
INVARIANT DebugNeutral
INVARIANT CodegenTotal
INVARIANT Emit
CHECK_DEADLOCK FALSE
