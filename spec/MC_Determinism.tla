--------------------------- MODULE MC_Determinism ---------------------------
(***************************************************************************)
(* C19: same source, same bytes.  Implementation-shaped model of the       *)
(* places where a hash map is iterated between source text and program     *)
(* bytes (ast.rs Scope / debug.rs CallTracker / witness.rs is_consistent): *)
(*                                                                         *)
(*   Track(site)     analysis visits the tracked calls in source order and *)
(*                   gives each the next id (CallTracker::track_call)      *)
(*   Symbols(perm)   with_file iterates the span -> (id, name) map in an   *)
(*                   arbitrary order `perm` to build DebugSymbols          *)
(*   Check(perm)     Arguments::is_consistent iterates the parameter map   *)
(*                   in an arbitrary order and returns the first error     *)
(*                                                                         *)
(* Every iteration order is a separate behaviour.  Properties: the marker  *)
(* embedded for a call site, the set of debug symbols and the Ok / Err     *)
(* outcome of instantiate are functions of the source (sites, parameters,  *)
(* arguments) only - the chosen permutations are hidden from the VIEW, so  *)
(* TLC reports a violation if two orders lead to different observable      *)
(* states.                                                                 *)
(***************************************************************************)
EXTENDS Naturals, Sequences, FiniteSets, TLC

CONSTANTS NSites, NParams

Sites == 1..NSites
Params == 1..NParams
Perms(S) == {f \in [1..Cardinality(S) -> S] : \A i, j \in DOMAIN f : i # j => f[i] # f[j]}

VARIABLES pc, nextId, tracked, symbols, perm, argsOK, outcome, firstErr

vars == <<pc, nextId, tracked, symbols, perm, argsOK, outcome, firstErr>>

Init == /\ pc = "analyse" /\ nextId = 0 /\ tracked = <<>> /\ symbols = {} /\ perm = <<>>
        /\ argsOK \in [Params -> BOOLEAN] /\ outcome = "none" /\ firstErr = 0

\* analysis: sites in source order
Track == /\ pc = "analyse" /\ Len(tracked) < NSites
         /\ tracked' = Append(tracked, [site |-> Len(tracked) + 1, id |-> nextId])
         /\ nextId' = nextId + 1
         /\ UNCHANGED <<pc, symbols, perm, argsOK, outcome, firstErr>>
EndAnalysis == /\ pc = "analyse" /\ Len(tracked) = NSites /\ pc' = "symbols"
               /\ UNCHANGED <<nextId, tracked, symbols, perm, argsOK, outcome, firstErr>>
\* with_file: any iteration order over the tracker map
Symbols == /\ pc = "symbols"
           /\ \E p \in Perms(Sites) :
                /\ perm' = p
                /\ symbols' = {[id |-> tracked[p[i]].id, site |-> tracked[p[i]].site] : i \in 1..NSites}
           /\ pc' = "check"
           /\ UNCHANGED <<nextId, tracked, argsOK, outcome, firstErr>>
\* is_consistent: any iteration order over the parameters; the first inconsistent one is reported
Check == /\ pc = "check"
         /\ \E p \in Perms(Params) :
              LET bad == {i \in 1..NParams : ~argsOK[p[i]]} IN
              /\ outcome' = IF bad = {} THEN "ok" ELSE "err"
              /\ firstErr' = IF bad = {} THEN 0 ELSE p[CHOOSE i \in bad : \A j \in bad : i <= j]
         /\ pc' = "done"
         /\ UNCHANGED <<nextId, tracked, symbols, perm, argsOK>>
Next == Track \/ EndAnalysis \/ Symbols \/ Check
Spec == Init /\ [][Next]_vars

\* ---- properties -----------------------------------------------------------------------------
\* the marker of a site is its rank in source order, whatever the iteration order was
MarkerOfSite == pc \in {"check", "done"} => \A s \in symbols : s.id = s.site - 1
DistinctMarkers == \A a, b \in symbols : a.site # b.site => a.id # b.id
\* Ok / Err of instantiate is determined by the arguments alone (which error is reported is not)
OutcomeDetermined == pc = "done" => (outcome = "ok" <=> \A q \in Params : argsOK[q])
\* observable state: everything except the hidden choices
View == <<pc, nextId, tracked, symbols, argsOK, outcome>>
=============================================================================
