-------------------------------- MODULE Base --------------------------------
(***************************************************************************)
(* Encoding conventions and small arithmetic shared by every module of the *)
(* Simfony specification.                                                  *)
(*                                                                         *)
(*  - every tree (type, value, pattern, expression, Simplicity term) is a  *)
(*    record with a tag field k;                                           *)
(*  - unsigned integers are big-endian bit sequences <<1,0,1,...>>;        *)
(*  - text is a sequence of token strings (a token may itself be a         *)
(*    sequence of pieces that are glued without white space).              *)
(***************************************************************************)
EXTENDS Naturals, Sequences, FiniteSets, TLC, SequencesExt

RECURSIVE Pow2(_)
Pow2(n) == IF n = 0 THEN 1 ELSE 2 * Pow2(n - 1)

Pow2Set == {Pow2(i) : i \in 0..20}
IsPow2(n) == n \in Pow2Set

RECURSIVE NextPow2From(_, _)
NextPow2From(p, n) == IF p >= n THEN p ELSE NextPow2From(2 * p, n)
\* smallest power of two >= n (n >= 1)
NextPow2(n) == NextPow2From(1, n)

RECURSIVE Log2(_)
Log2(n) == IF n <= 1 THEN 0 ELSE 1 + Log2(n \div 2)

Min2(a, b) == IF a <= b THEN a ELSE b
Max2(a, b) == IF a >= b THEN a ELSE b

Rep(x, n) == [i \in 1..n |-> x]
Rev(s) == [i \in 1..Len(s) |-> s[Len(s) + 1 - i]]
SeqRange(s) == {s[i] : i \in DOMAIN s}

RECURSIVE Concat(_)
\* flatten a sequence of sequences
Concat(ss) == IF ss = <<>> THEN <<>> ELSE Head(ss) \o Concat(Tail(ss))

RECURSIVE SumSeq(_)
SumSeq(s) == IF s = <<>> THEN 0 ELSE Head(s) + SumSeq(Tail(s))

\* ---- bit sequences (big endian) ---------------------------------------
RECURSIVE NatOfBits(_)
NatOfBits(bs) == IF bs = <<>> THEN 0 ELSE 2 * NatOfBits(Front(bs)) + Last(bs)

RECURSIVE BitsOfNat(_, _)
\* the n low bits of v, big endian
BitsOfNat(v, n) == IF n = 0 THEN <<>> ELSE Append(BitsOfNat(v \div 2, n - 1), v % 2)

ZeroBits(n) == Rep(0, n)
OneBits(n) == Rep(1, n)

\* interleave a separator
RECURSIVE Join(_, _)
Join(ss, sep) ==
  IF ss = <<>> THEN <<>>
  ELSE IF Len(ss) = 1 THEN ss[1]
  ELSE ss[1] \o sep \o Join(Tail(ss), sep)
=============================================================================
