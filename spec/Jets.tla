-------------------------------- MODULE Jets --------------------------------
(***************************************************************************)
(* Jets: signatures (golden table, JetTable.tla) and closed-form meaning   *)
(* of the arithmetic / comparison / bit-logic jets, generic in the width,  *)
(* on big-endian bit sequences (reference layer; written from the          *)
(* Simplicity jet documentation, not from an implementation).              *)
(***************************************************************************)
EXTENDS Types, JetTable, JetOps

FAIL == [k |-> "FAIL"]


ResolveBuiltins(t) == Resolve(t, <<>>)

\* resolved signature of a jet
JetSig(name) == LET s == JetTable[name] IN
                [args |-> [i \in 1..Len(s.args) |-> ResolveBuiltins(s.args[i])], ret |-> ResolveBuiltins(s.ret)]

\* ---- bit-vector arithmetic ---------------------------------------------------------
RECURSIVE AddRec(_, _, _)
\* little-endian addition; result <<sum (little endian), carry>>
AddRec(ra, rb, c) ==
  IF ra = <<>> THEN <<<<>>, c>>
  ELSE LET s == Head(ra) + Head(rb) + c
           r == AddRec(Tail(ra), Tail(rb), s \div 2)
       IN <<<<s % 2>> \o r[1], r[2]>>
AddC(a, b, c) == LET r == AddRec(Rev(a), Rev(b), c) IN [sum |-> Rev(r[1]), carry |-> r[2]]
NotBits(a) == [i \in 1..Len(a) |-> 1 - a[i]]
\* a - b - bin : diff and borrow
SubB(a, b, bin) == LET r == AddC(a, NotBits(b), 1 - bin) IN [diff |-> r.sum, borrow |-> 1 - r.carry]
IsZeroBits(a) == \A i \in 1..Len(a) : a[i] = 0
RECURSIVE LtBits(_, _)
LtBits(a, b) == IF a = <<>> THEN FALSE
                ELSE IF Head(a) # Head(b) THEN Head(a) < Head(b)
                ELSE LtBits(Tail(a), Tail(b))
LeBits(a, b) == a = b \/ LtBits(a, b)
MinBits(a, b) == IF LtBits(b, a) THEN b ELSE a
MaxBits(a, b) == IF LtBits(a, b) THEN b ELSE a
NatBits(v, n) == BitsOfNat(v, n)           \* only for v < 2^31
OneOf(n) == ZeroBits(n - 1) \o <<1>>
ZeroExt(a, n) == ZeroBits(n - Len(a)) \o a
RECURSIVE MulRec(_, _, _)
\* shift-and-add: acc (2n bits) + a * b where b is consumed from its most significant bit
MulRec(acc, a2n, b) ==
  IF b = <<>> THEN acc
  ELSE LET dbl == Tail(acc) \o <<0>>                       \* acc * 2 (cannot overflow 2n bits)
           nxt == IF Head(b) = 1 THEN AddC(dbl, a2n, 0).sum ELSE dbl
       IN MulRec(nxt, a2n, Tail(b))
MulBits(a, b) == LET n == Len(a) IN MulRec(ZeroBits(2 * n), ZeroExt(a, 2 * n), b)
RECURSIVE DivRec(_, _, _, _)
\* restoring division, most significant bit first: returns <<quotient bits, remainder>>
DivRec(q, r, a, b) ==
  IF a = <<>> THEN <<q, r>>
  ELSE \* r has one spare leading bit; r2 is bound by a set comprehension so that it is evaluated once
       CHOOSE res \in {IF LeBits(b, r2) THEN DivRec(Append(q, 1), SubB(r2, b, 0).diff, Tail(a), b)
                       ELSE DivRec(Append(q, 0), r2, Tail(a), b) : r2 \in {Tail(r) \o <<Head(a)>>}} : TRUE
\* quotient and remainder (b # 0), all of width n
DivMod(a, b) == LET n == Len(a)
                    r == DivRec(<<>>, ZeroBits(n + 1), a, <<0>> \o b)
                IN [q |-> r[1], r |-> Tail(r[2])]

Bv(b) == IF b THEN 1 ELSE 0
VB(i) == VBool(i = 1)
BitsOfBool(v) == <<Bv(v.bv)>>

\* ---- closed-form meaning --------------------------------------------------------------
\* vs: sequence of argument values (as typed by the signature).  Result: value of the result type.
RECURSIVE FlatVals(_)
\* the scalar arguments in written order (a few jets group their parameters in tuples)
FlatVals(vs) == IF vs = <<>> THEN <<>>
                ELSE (IF Head(vs).k = "vtup" THEN FlatVals(Head(vs).es) ELSE <<Head(vs)>>) \o FlatVals(Tail(vs))
JetMeaning(name, vs0) ==
  LET vs == FlatVals(vs0)
      o == JetOpTable[name]
      n == o.n
      op == o.op
      A == vs[1].bits B == vs[2].bits C == vs[3].bits
  IN CASE op = "low" -> VU(ZeroBits(n))
       [] op = "high" -> VU(OneBits(n))
       [] op = "one" -> VU(OneOf(n))
       [] op = "complement" -> VU(NotBits(A))
       [] op = "and" -> VU([i \in 1..n |-> A[i] * B[i]])
       [] op = "or" -> VU([i \in 1..n |-> IF A[i] + B[i] > 0 THEN 1 ELSE 0])
       [] op = "xor" -> VU([i \in 1..n |-> (A[i] + B[i]) % 2])
       [] op = "maj" -> VU([i \in 1..n |-> IF A[i] + B[i] + C[i] >= 2 THEN 1 ELSE 0])
       [] op = "xor_xor" -> VU([i \in 1..n |-> (A[i] + B[i] + C[i]) % 2])
       [] op = "ch" -> VU([i \in 1..n |-> IF A[i] = 1 THEN B[i] ELSE C[i]])
       [] op = "some" -> VBool(~IsZeroBits(A))
       [] op = "all" -> VBool(A = OneBits(n))
       [] op = "eq" -> VBool(A = B)
       [] op = "is_zero" -> VBool(IsZeroBits(A))
       [] op = "is_one" -> VBool(A = OneOf(n))
       [] op = "le" -> VBool(LeBits(A, B))
       [] op = "lt" -> VBool(LtBits(A, B))
       [] op = "min" -> VU(MinBits(A, B))
       [] op = "max" -> VU(MaxBits(A, B))
       [] op = "median" -> VU(MaxBits(MinBits(A, B), MinBits(MaxBits(A, B), C)))
       [] op = "add" -> LET r == AddC(A, B, 0) IN VTup(<<VB(r.carry), VU(r.sum)>>)
       [] op = "full_add" -> LET r == AddC(B, C, Bv(vs[1].bv)) IN VTup(<<VB(r.carry), VU(r.sum)>>)
       [] op = "increment" -> LET r == AddC(A, ZeroBits(n), 1) IN VTup(<<VB(r.carry), VU(r.sum)>>)
       [] op = "full_increment" -> LET r == AddC(B, ZeroBits(n), Bv(vs[1].bv)) IN VTup(<<VB(r.carry), VU(r.sum)>>)
       [] op = "subtract" -> LET r == SubB(A, B, 0) IN VTup(<<VB(r.borrow), VU(r.diff)>>)
       [] op = "full_subtract" -> LET r == SubB(B, C, Bv(vs[1].bv)) IN VTup(<<VB(r.borrow), VU(r.diff)>>)
       [] op = "negate" -> LET r == SubB(ZeroBits(n), A, 0) IN VTup(<<VB(r.borrow), VU(r.diff)>>)
       [] op = "decrement" -> LET r == SubB(A, ZeroBits(n), 1) IN VTup(<<VB(r.borrow), VU(r.diff)>>)
       [] op = "full_decrement" -> LET r == SubB(B, ZeroBits(n), Bv(vs[1].bv)) IN VTup(<<VB(r.borrow), VU(r.diff)>>)
       [] op = "multiply" -> VU(MulBits(A, B))
       [] op = "full_multiply" ->
            \* (a, b, c, d) -> a * b + c + d   (2n bits; cannot overflow)
            LET D == vs[4].bits
                p == MulBits(A, B)
                s1 == AddC(p, ZeroExt(C, 2 * n), 0).sum
            IN VU(AddC(s1, ZeroExt(D, 2 * n), 0).sum)
       [] op = "div_mod" -> IF IsZeroBits(B) THEN VTup(<<VU(ZeroBits(n)), VU(A)>>)
                            ELSE LET r == DivMod(A, B) IN VTup(<<VU(r.q), VU(r.r)>>)
       [] op = "divide" -> IF IsZeroBits(B) THEN VU(ZeroBits(n)) ELSE VU(DivMod(A, B).q)
       [] op = "modulo" -> IF IsZeroBits(B) THEN VU(A) ELSE VU(DivMod(A, B).r)
       [] op = "divides" -> \* a divides b
                            IF IsZeroBits(A) THEN VBool(IsZeroBits(B)) ELSE VBool(IsZeroBits(DivMod(B, A).r))
       \* ---- sub-words, padding, extension (source width n, target width m) ----
       [] op = "leftmost" -> VU(SubSeq(A, 1, o.m))
       [] op = "rightmost" -> VU(SubSeq(A, n - o.m + 1, n))
       [] op = "left_pad_low" -> VU(ZeroBits(o.m - n) \o A)
       [] op = "left_pad_high" -> VU(OneBits(o.m - n) \o A)
       [] op = "left_extend" -> VU(Rep(A[1], o.m - n) \o A)
       [] op = "right_pad_low" -> VU(A \o ZeroBits(o.m - n))
       [] op = "right_pad_high" -> VU(A \o OneBits(o.m - n))
       [] op = "right_extend" -> VU(A \o Rep(A[n], o.m - n))
       \* ---- shifts: (a : n bits, b : m bits) concatenated, split the other way ----
       [] op = "full_left_shift" -> LET ab == A \o B IN VTup(<<VU(SubSeq(ab, 1, o.m)), VU(SubSeq(ab, o.m + 1, n + o.m))>>)
       [] op = "full_right_shift" -> LET ab == A \o B IN VTup(<<VU(SubSeq(ab, 1, n)), VU(SubSeq(ab, n + 1, n + o.m))>>)
       [] op = "left_shift_with" -> LET k == Min2(NatOfBits(B), n) IN VU(SubSeq(C, k + 1, n) \o Rep(A[1], k))
       [] op = "right_shift_with" -> LET k == Min2(NatOfBits(B), n) IN VU(Rep(A[1], k) \o SubSeq(C, 1, n - k))
       [] op = "left_shift" -> LET k == Min2(NatOfBits(A), n) IN VU(SubSeq(B, k + 1, n) \o ZeroBits(k))
       [] op = "right_shift" -> LET k == Min2(NatOfBits(A), n) IN VU(ZeroBits(k) \o SubSeq(B, 1, n - k))
       [] op = "left_rotate" -> LET k == NatOfBits(A) % n IN VU(SubSeq(B, k + 1, n) \o SubSeq(B, 1, k))
       [] op = "right_rotate" -> LET k == NatOfBits(A) % n IN VU(SubSeq(B, n - k + 1, n) \o SubSeq(B, 1, n - k))

\* jets whose meaning the model knows (sub-word shifts/extensions are added by JetsExt for C13)
CoreJetOps == {"low", "high", "one", "complement", "and", "or", "xor", "maj", "xor_xor", "ch", "some", "all", "eq",
               "is_zero", "is_one", "le", "lt", "min", "max", "median", "add", "full_add", "increment",
               "full_increment", "subtract", "full_subtract", "negate", "decrement", "full_decrement", "multiply",
               "full_multiply", "div_mod", "divide", "modulo", "divides",
               "leftmost", "rightmost", "left_pad_low", "left_pad_high", "left_extend", "right_pad_low", "right_pad_high",
               "right_extend", "full_left_shift", "full_right_shift", "left_shift_with", "right_shift_with", "left_shift",
               "right_shift", "left_rotate", "right_rotate"}
HasMeaning(name) == name \in ClosedFormJets /\ JetOpTable[name].op \in CoreJetOps

\* ---- transaction environment (the part the lock-time jets read) ---------------------------
\* env = [lock |-> 32 bits (nLockTime), seq |-> 32 bits (nSequence of the single input)], version 2
DummyEnv == [lock |-> ZeroBits(32), seq |-> OneBits(32)]
EnvJets == {"tx_is_final", "tx_lock_height", "tx_lock_time", "tx_lock_distance", "tx_lock_duration",
            "check_lock_height", "check_lock_time", "check_lock_distance", "check_lock_duration",
            "lock_time", "current_sequence"}
Threshold500M == BitsOfNat(500000000, 32)
EnvFinal(env) == env.seq = OneBits(32)
EnvLockHeight(env) == IF ~EnvFinal(env) /\ LtBits(env.lock, Threshold500M) THEN env.lock ELSE ZeroBits(32)
EnvLockTime(env) == IF ~EnvFinal(env) /\ ~LtBits(env.lock, Threshold500M) THEN env.lock ELSE ZeroBits(32)
\* BIP 68: bit 31 disables the relative lock, bit 22 selects time (512 s units) instead of blocks
EnvDistance(env) == IF env.seq[1] = 1 \/ env.seq[10] = 1 THEN ZeroBits(16) ELSE SubSeq(env.seq, 17, 32)
EnvDuration(env) == IF env.seq[1] = 1 \/ env.seq[10] = 0 THEN ZeroBits(16) ELSE SubSeq(env.seq, 17, 32)
EnvJetEval(name, vs, env) ==
  CASE name = "tx_is_final" -> VBool(EnvFinal(env))
    [] name = "tx_lock_height" -> VU(EnvLockHeight(env))
    [] name = "tx_lock_time" -> VU(EnvLockTime(env))
    [] name = "tx_lock_distance" -> VU(EnvDistance(env))
    [] name = "tx_lock_duration" -> VU(EnvDuration(env))
    [] name = "lock_time" -> VU(env.lock)
    [] name = "current_sequence" -> VU(env.seq)
    [] name = "check_lock_height" -> IF LeBits(vs[1].bits, EnvLockHeight(env)) THEN VUnit ELSE FAIL
    [] name = "check_lock_time" -> IF LeBits(vs[1].bits, EnvLockTime(env)) THEN VUnit ELSE FAIL
    [] name = "check_lock_distance" -> IF LeBits(vs[1].bits, EnvDistance(env)) THEN VUnit ELSE FAIL
    [] name = "check_lock_duration" -> IF LeBits(vs[1].bits, EnvDuration(env)) THEN VUnit ELSE FAIL

\* evaluation of a jet call at source level
JetEvalEnv(name, vs, env) ==
  IF name = "verify" THEN (IF vs[1].bv THEN VUnit ELSE FAIL)
  ELSE IF name \in EnvJets THEN EnvJetEval(name, vs, env)
  ELSE JetMeaning(name, vs)
JetEval(name, vs) == JetEvalEnv(name, vs, DummyEnv)
=============================================================================
