SPECIFICATION Spec
CONSTANTS
  Families <- PrFamilies
  ProgramsOf <- PrProgramsOf
INVARIANT GeneratedWellFormed
INVARIANT WitnessTypesAsDeclared
INVARIANT CompileCorrect
INVARIANT DebugNeutral
INVARIANT CodegenTotal
INVARIANT EnvCompileCorrect
INVARIANT PruneNeutral
INVARIANT Emit
CHECK_DEADLOCK FALSE
