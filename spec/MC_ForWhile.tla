----------------------------- MODULE MC_ForWhile ----------------------------
(***************************************************************************)
(* C09: for_while::<f>(acc, ctx) calls f(acc, ctx, i) for i = 0, 1, 2, ... *)
(* threading the accumulator, passing ctx unchanged, and stops at the      *)
(* first Left.  The loop body records the order of the counters            *)
(* (acc' = 3 * acc + i), exits with Left(acc) when i equals the exit index *)
(* carried by ctx, and - in the poisoned variant - panics when it is       *)
(* evaluated for a counter beyond the exit index.  Widths 1, 2, 4, 8       *)
(* (thorough: 16); every exit iteration for small widths, boundary ones    *)
(* above; "never exit" included.  The model checks the stack-built         *)
(* combinator of compile.rs (ForWhileT) against the reference loop.        *)
(***************************************************************************)
EXTENDS ProgMC

TW(w) == TU(w)
AccW(k) == IF k <= 8 THEN 8 ELSE 16

RECURSIVE Ext(_, _, _)
\* widen expression e of type u{k} to u{w} by casting (0, e) pairs
Ext(e, k, w) == IF k = w THEN e
                ELSE Ext(CastE(TTup(<<TU(k), TU(k)>>), ETuple(<<Dec(0), e>>)), 2 * k, w)

Suffix(w) == IF w = 8 THEN "8" ELSE "16"
JetW(op, w) == CASE op = "multiply" -> (IF w = 8 THEN "multiply_8" ELSE "multiply_16")
                 [] op = "add" -> (IF w = 8 THEN "add_8" ELSE "add_16")
                 [] op = "eq" -> (IF w = 8 THEN "eq_8" ELSE "eq_16")
                 [] op = "le" -> (IF w = 8 THEN "le_8" ELSE "le_16")

\* mix(i, acc) = low half of 3 * acc, plus i   (width w)
MixFn(w) == IFn("mix", <<Param("i", TU(w)), Param("acc", TU(w))>>, <<TU(w)>>,
                BlkE(<<SLet(PTup(<<PIgn, PId("lo")>>), TTup(<<TU(w), TU(w)>>), CastE(TU(2 * w), JetE(JetW("multiply", w), <<V("acc"), Dec(3)>>))),
                       SLet(PTup(<<PIgn, PId("s")>>), TTup(<<TBool, TU(w)>>), JetE(JetW("add", w), <<V("lo"), V("i")>>))>>, V("s")))

\* ctx = (enabled, exit index)
CtxTy(k) == TTup(<<TBool, TU(k)>>)
Body(k, poisoned) ==
  LET w == AccW(k)
      iw == Ext(V("i"), k, w)
      xw == Ext(V("x"), k, w)
      hit == EMatch(V("en"), <<Arm(MFalse, EBool(FALSE)), Arm(MTrue, JetE(JetW("eq", w), <<iw, xw>>))>>)
      guard == IF poisoned
               THEN <<SExpr(EMatch(V("en"), <<Arm(MFalse, EUnit), Arm(MTrue, AssertE(JetE(JetW("le", w), <<iw, xw>>)))>>))>>
               ELSE <<>>
  IN IFn("body", <<Param("acc", TU(w)), Param("ctx", CtxTy(k)), Param("i", TU(k))>>, <<TEither(TU(w), TU(w))>>,
         BlkE(<<SLet(PTup(<<PId("en"), PId("x")>>), CtxTy(k), V("ctx"))>> \o guard,
              EMatch(hit, <<Arm(MTrue, ELeft(V("acc"))), Arm(MFalse, ERight(ECall(CFn("mix"), <<iw, V("acc")>>)))>>)))

\* a second loop shape: the exit value is computed from ctx, the accumulator is a pair (C is passed unchanged)
Widths == {1, 2, 4, 8, 16}          \* width 16: early exits inside TLC, the full 65 536 iterations through the lemma points
Exits(k) == IF k <= 4 THEN 0..(Pow2(k) - 1)
            ELSE IF k = 8 THEN {0, 1, 2, 3, 127, 128, 129, 254, 255}
            ELSE {0, 1, 255, 256}       \* width 16: only early exits are evaluated inside TLC

NestWidths == {<<1, 1>>, <<1, 2>>, <<2, 1>>, <<2, 2>>, <<4, 1>>, <<2, 4>>}   \* <<outer width, inner width>>
FWFamilies == {[k |-> k, poisoned |-> p] : k \in Widths, p \in BOOLEAN} \cup {[k |-> k, shape |-> "count"] : k \in Widths}
              \cup {[k |-> kk[1], k2 |-> kk[2], shape |-> "nest"] : kk \in NestWidths}

\* a loop whose body never looks at the counter: it counts its own iterations in the accumulator and leaves when the
\* count reaches the limit passed as context (the number of iterations is then observable although i is unused)
CountBody(k) ==
  LET w == AccW(k) IN
  IFn("body", <<Param("acc", TU(w)), Param("lim", TU(w)), Param("i", TU(k))>>, <<TEither(TU(w), TU(w))>>,
      BlkE(<<>>, EMatch(JetE(JetW("eq", w), <<V("acc"), V("lim")>>),
                        <<Arm(MTrue, ELeft(V("acc"))),
                          Arm(MFalse, BlkE(<<SLet(PTup(<<PIgn, PId("s")>>), TTup(<<TBool, TU(w)>>),
                                                   JetE(JetW("add", w), <<V("acc"), Dec(1)>>))>>, ERight(V("s"))))>>)))
CountLimits(k) == IF k <= 2 THEN 0..(Pow2(k) + 2) ELSE {0, 1, 2, 3, Pow2(k) - 1, Pow2(k), Pow2(k) + 1, Pow2(k) + 2}
RefCount(k, lim) ==
  LET items == <<CountBody(k), Main(Blk(<<>>))>>
      m == MainCtx(items, G0)
      C == [fns |-> m.G.fns, al |-> m.G.al, wit |-> EmptyFn, args |-> EmptyFn, env |-> DummyEnv]
      w == AccW(k)
  IN WhileLoop(m.G.fns["body"], VU(BitsOfNat(1, w)), VU(BitsOfNat(lim, w)), 0, k, C)
\* LEMMA (closed form of the counting loop): before iteration j the accumulator is (1 + j) mod 2^w; the loop leaves with
\* Left(lim) at the first j < 2^k with (1 + j) mod 2^w = lim, otherwise it returns Right((1 + 2^k) mod 2^w).
\* CountProgram evaluates the reference loop at every width up to 8 and stops TLC if the lemma disagrees; at width 16 the
\* lemma supplies the expectation of the runs that need up to 65 536 iterations.
CountClosed(k, lim) ==
  LET w == AccW(k)
      hit == IF Pow2(k) >= Pow2(w) THEN TRUE ELSE lim \in 1..Pow2(k)
  IN IF hit THEN VLeft(VU(BitsOfNat(lim, w))) ELSE VRight(VU(BitsOfNat((1 + Pow2(k)) % Pow2(w), w)))
CountProgram(k) ==
  LET w == AccW(k)
      tr == TEither(TU(w), TU(w))
      items == <<CountBody(k),
                 Main(Blk(<<SLet(PId("c"), TU(w), EWit("CTX")),
                            SLet(PId("r"), tr, ECall(CForWhile("body"), <<Dec(1), V("c")>>)),
                            SLet(PId("x"), tr, EWit("EXP"))>> \o Obs(tr, "r", "x")))>>
      lims == SetToSeq(CountLimits(k))
      flip(v) == IF v.k = "vleft" THEN VRight(v.v) ELSE VLeft(v.v)
      pt(lim, good) == LET v == RefCount(k, lim) IN
                       IF v = CountClosed(k, lim)
                       THEN ("CTX" :> VU(BitsOfNat(lim, w))) @@ ("EXP" :> IF good THEN v ELSE flip(v))
                       ELSE Assert(FALSE, <<"the closed form of the counting loop disagrees with the reference loop", k, lim>>)
      xpt(lim, good) == LET v == CountClosed(k, lim) IN
                        ("CTX" :> VU(BitsOfNat(lim, w))) @@ ("EXP" :> IF good THEN v ELSE flip(v))
      xl == <<0, 65535, 32768, 4097>>
  IN IF k <= 8
     THEN [items |-> items, wdecls |-> <<<<"CTX", TU(w)>>, <<"EXP", tr>>>>, args |-> EmptyFn,
           space |-> [i \in 1..(2 * Len(lims)) |-> pt(lims[(i + 1) \div 2], i % 2 = 1)]]
     ELSE [items |-> items, wdecls |-> <<<<"CTX", TU(w)>>, <<"EXP", tr>>>>, args |-> EmptyFn,
           space |-> [i \in 1..4 |-> pt(<<1, 2, 3, 256>>[i], TRUE)] \o <<pt(256, FALSE)>>,
           xpoints |-> [i \in 1..(2 * Len(xl)) |-> xpt(xl[(i + 1) \div 2], i % 2 = 1)],
           xverdicts |-> [i \in 1..(2 * Len(xl)) |-> i % 2 = 1]]

RefLoop(k, poisoned, en, x) ==
  LET items == <<MixFn(AccW(k)), Body(k, poisoned), Main(Blk(<<>>))>>
      m == MainCtx(items, G0)
      C == [fns |-> m.G.fns, al |-> m.G.al, wit |-> EmptyFn, args |-> EmptyFn, env |-> DummyEnv]
      w == AccW(k)
  IN WhileLoop(m.G.fns["body"], VU(BitsOfNat(1, w)), VTup(<<VBool(en), VU(BitsOfNat(x, k))>>), 0, k, C)

Wrong(v) == IF v.k = "vleft" THEN VRight(v.v) ELSE VLeft(v.v)

FWProgram(k, poisoned) ==
  LET w == AccW(k)
      tr == TEither(TU(w), TU(w))
      items == <<MixFn(w), Body(k, poisoned),
                 Main(Blk(<<SLet(PId("c"), CtxTy(k), EWit("CTX")),
                            SLet(PId("r"), tr, ECall(CForWhile("body"), <<Dec(1), V("c")>>)),
                            SLet(PId("x"), tr, EWit("EXP"))>> \o Obs(tr, "r", "x")))>>
      exits == SetToSeq(Exits(k))
      pt(en, x, good) == LET v == RefLoop(k, poisoned, en, x) IN
                         ("CTX" :> VTup(<<VBool(en), VU(BitsOfNat(x, k))>>)) @@ ("EXP" :> IF good THEN v ELSE Wrong(v))
  IN [items |-> items, wdecls |-> <<<<"CTX", CtxTy(k)>>, <<"EXP", tr>>>>, args |-> EmptyFn,
      space |-> [i \in 1..(2 * Len(exits)) |-> pt(TRUE, exits[(i + 1) \div 2], i % 2 = 1)]
                \o (IF k <= 8 THEN <<pt(FALSE, 0, TRUE), pt(FALSE, 0, FALSE)>> ELSE <<>>)]

\* a loop inside a loop body: on outer iteration i the inner loop (counter width k2, context = i) mixes c and j into the
\* accumulator for j = 0, 1, ... and leaves with Left at j = i (when i < 2^k2), otherwise runs to the end (Right); the outer
\* body tags which of the two happened (7 / 5), and leaves when i equals the limit carried by its own context.  Every
\* value below is order-sensitive in i and in j, so an inner loop that restarts, skips, or sees another context shows.
InnerBody(k2) ==
  IFn("inner", <<Param("acc", TU(8)), Param("c", TU(8)), Param("j", TU(k2))>>, <<TEither(TU(8), TU(8))>>,
      BlkE(<<SLet(PId("m"), TU(8), ECall(CFn("mix"), <<Ext(V("j"), k2, 8), ECall(CFn("mix"), <<V("c"), V("acc")>>)>>))>>,
           EMatch(JetE("eq_8", <<Ext(V("j"), k2, 8), V("c")>>), <<Arm(MTrue, ELeft(V("m"))), Arm(MFalse, ERight(V("m")))>>)))
OuterBody(k) ==
  IFn("body", <<Param("acc", TU(8)), Param("lim", TU(8)), Param("i", TU(k))>>, <<TEither(TU(8), TU(8))>>,
      BlkE(<<SLet(PId("r"), TEither(TU(8), TU(8)), ECall(CForWhile("inner"), <<V("acc"), Ext(V("i"), k, 8)>>)),
             SLet(PId("a"), TU(8), EMatch(V("r"), <<Arm(MLeft("l", TU(8)), ECall(CFn("mix"), <<Dec(7), V("l")>>)),
                                                    Arm(MRight("q", TU(8)), ECall(CFn("mix"), <<Dec(5), V("q")>>))>>))>>,
           EMatch(JetE("eq_8", <<Ext(V("i"), k, 8), V("lim")>>), <<Arm(MTrue, ELeft(V("a"))), Arm(MFalse, ERight(V("a")))>>)))
RefNest(k, k2, lim) ==
  LET items == <<MixFn(8), InnerBody(k2), OuterBody(k), Main(Blk(<<>>))>>
      m == MainCtx(items, G0)
      C == [fns |-> m.G.fns, al |-> m.G.al, wit |-> EmptyFn, args |-> EmptyFn, env |-> DummyEnv]
  IN WhileLoop(m.G.fns["body"], VU(BitsOfNat(1, 8)), VU(BitsOfNat(lim, 8)), 0, k, C)
NestProgram(k, k2) ==
  LET tr == TEither(TU(8), TU(8))
      items == <<MixFn(8), InnerBody(k2), OuterBody(k),
                 Main(Blk(<<SLet(PId("c"), TU(8), EWit("CTX")),
                            SLet(PId("r"), tr, ECall(CForWhile("body"), <<Dec(1), V("c")>>)),
                            SLet(PId("x"), tr, EWit("EXP"))>> \o Obs(tr, "r", "x")))>>
      lims == SetToSeq(0..Pow2(k))
      pt(lim, good) == LET v == RefNest(k, k2, lim) IN
                       ("CTX" :> VU(BitsOfNat(lim, 8))) @@ ("EXP" :> IF good THEN v ELSE Wrong(v))
  IN [items |-> items, wdecls |-> <<<<"CTX", TU(8)>>, <<"EXP", tr>>>>, args |-> EmptyFn,
      space |-> [i \in 1..(2 * Len(lims)) |-> pt(lims[(i + 1) \div 2], i % 2 = 1)]]

FWProgramsOf(f) == IF "shape" \in DOMAIN f
                   THEN (IF f.shape = "nest" THEN {NestProgram(f.k, f.k2)} ELSE {CountProgram(f.k)})
                   ELSE {FWProgram(f.k, f.poisoned)}
=============================================================================
