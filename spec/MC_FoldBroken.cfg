SPECIFICATION Spec
CONSTANTS
  NextFArray <- NextFArraySwapped
  Families <- FoldFamilies
  ProgramsOf <- FoldProgramsOf
INVARIANT GeneratedWellFormed
INVARIANT WitnessTypesAsDeclared
INVARIANT CompileCorrect
INVARIANT DebugNeutral
INVARIANT CodegenTotal
CHECK_DEADLOCK FALSE
