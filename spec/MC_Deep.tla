------------------------------- MODULE MC_Deep -------------------------------
(***************************************************************************)
(* C01 family "deep": pseudo-randomly generated programs whose result      *)
(* expression nests the productions of MC_Compile two to four levels deep   *)
(* (constructors, unwraps, matches on computed scrutinees, blocks with      *)
(* (pattern) lets, casts, calls of custom functions, dbg!, jets).  The      *)
(* generator is a deterministic function of VERIF_SEED (a linear            *)
(* congruential stream threaded through the recursion), so a run can be     *)
(* repeated.  Every program is well-formed by construction - the invariant  *)
(* GeneratedWellFormed checks the generator against Static.tla - and is     *)
(* observed at explicit witness points: for every assignment of the three   *)
(* witnesses, EXP = the value the reference semantics prescribes (must      *)
(* succeed unless the expression panics) and EXP = another value of the     *)
(* type (must fail).                                                        *)
(***************************************************************************)
EXTENDS MC_Compile

Nx(s) == (s * 75 + 74) % 65537
Ix(s, n) == (s % n) + 1
PickS(seq, s) == seq[Ix(s, Len(seq))]
PickSet(S, s) == PickS(SetToSeq(S), s)

DDecls == DiscardDecls                    \* A: bool -> a, B: Option<u2> -> b, C: Either<u1, u2> -> c
ScrutTypes == <<TBool, TOptU2, TEi, TOpt(TBool)>>
LetTypes == <<T2, TBool, TPair, TOptU2, T1, TArr2>>
CallNames == <<"idf", "fst", "snd", "shadow", "deep", "sel", "force">>
CallArgs(f) == CASE f = "idf" -> <<T2>> [] f = "sel" -> <<TBool, T2, T2>> [] f = "force" -> <<TOptU2>> [] OTHER -> <<T2, T2>>

Prods(ty) ==
  <<"leaf", "unwrap", "unwrapl", "unwrapr", "match", "match", "block", "block", "dbg", "paren">>
  \o (IF ty.k \in {"arr", "list", "opt", "either"} \/ (ty.k = "tup" /\ ty.es # <<>>) THEN <<"constr", "constr">> ELSE <<>>)
  \o (IF CastSources(ty) # {} THEN <<"cast">> ELSE <<>>)
  \o (IF ty = T2 THEN <<"call", "call">> ELSE <<>>)
  \o (IF ty \in {TBool, T1} THEN <<"jet">> ELSE <<>>)
  \o (IF ty = TBool THEN <<"isnone">> ELSE <<>>)

\* a leaf: two times out of three a variable of the type, when one is in scope (witness dependence)
LeafPick(ty, ctx, s) == IF Vars(ty, ctx) # {} /\ s % 3 # 0 THEN PickSet(Vars(ty, ctx), Nx(s)) ELSE PickSet(Leaves(ty, ctx), Nx(s))

RECURSIVE Gen(_, _, _, _)
RECURSIVE GenSeq(_, _, _, _)
\* GenSeq: expressions for a sequence of types, threading the stream
GenSeq(tys, ctx, d, s) ==
  IF tys = <<>> THEN [es |-> <<>>, s |-> s]
  ELSE LET h == Gen(Head(tys), ctx, d, s)
           t == GenSeq(Tail(tys), ctx, d, h.s)
       IN [es |-> <<h.e>> \o t.es, s |-> t.s]

Gen(ty, ctx, d, s) ==
  IF d = 0 THEN [e |-> LeafPick(ty, ctx, s), s |-> Nx(Nx(s))]
  ELSE
  LET p == PickS(Prods(ty), s)
      s1 == Nx(s)
      s2 == Nx(s1)
  IN
  CASE p = "leaf" -> [e |-> LeafPick(ty, ctx, s1), s |-> Nx(s2)]
    [] p = "paren" -> LET g == Gen(ty, ctx, d - 1, s1) IN [e |-> EParen(g.e), s |-> g.s]
    [] p = "dbg" -> LET g == Gen(ty, ctx, d - 1, s1) IN [e |-> Call1(CDbg, g.e), s |-> g.s]
    [] p = "unwrap" -> LET g == Gen(TOpt(ty), ctx, d - 1, s1) IN [e |-> Call1(CUnwrap, g.e), s |-> g.s]
    [] p = "unwrapl" -> LET r == PickSet(OtherTys, s1) g == Gen(TEither(ty, r), ctx, d - 1, s2)
                        IN [e |-> Call1(CUnwrapLeft(r), g.e), s |-> g.s]
    [] p = "unwrapr" -> LET l == PickSet(OtherTys, s1) g == Gen(TEither(l, ty), ctx, d - 1, s2)
                        IN [e |-> Call1(CUnwrapRight(l), g.e), s |-> g.s]
    [] p = "isnone" -> LET t == PickS(<<T2, TBool>>, s1) g == Gen(TOpt(t), ctx, d - 1, s2)
                       IN [e |-> Call1(CIsNone(t), g.e), s |-> g.s]
    [] p = "constr" ->
         (CASE ty.k = "tup" -> LET g == GenSeq(ty.es, ctx, d - 1, s1) IN [e |-> ETuple(g.es), s |-> g.s]
            [] ty.k = "arr" -> LET g == GenSeq(Rep(ty.e, ty.n), ctx, d - 1, s1) IN [e |-> EArray(g.es), s |-> g.s]
            [] ty.k = "list" -> LET n == Ix(s1, ty.b) - 1 g == GenSeq(Rep(ty.e, n), ctx, d - 1, s2)
                                IN [e |-> EList(g.es), s |-> g.s]
            [] ty.k = "opt" -> IF s1 % 3 = 0 THEN [e |-> ENone, s |-> s2]
                               ELSE LET g == Gen(ty.e, ctx, d - 1, s2) IN [e |-> ESome(g.e), s |-> g.s]
            [] ty.k = "either" -> IF s1 % 2 = 0 THEN LET g == Gen(ty.l, ctx, d - 1, s2) IN [e |-> ELeft(g.e), s |-> g.s]
                                  ELSE LET g == Gen(ty.r, ctx, d - 1, s2) IN [e |-> ERight(g.e), s |-> g.s])
    [] p = "cast" -> LET src == PickSet(CastSources(ty), s1) g == Gen(src, ctx, d - 1, s2)
                     IN [e |-> CastE(src, g.e), s |-> g.s]
    [] p = "call" -> LET f == PickS(CallNames, s1) g == GenSeq(CallArgs(f), ctx, d - 1, s2)
                     IN [e |-> ECall(CFn(f), g.es), s |-> g.s]
    [] p = "jet" -> IF ty = TBool
                    THEN (IF s1 % 2 = 0 THEN LET g == GenSeq(<<T1, T1>>, ctx, d - 1, s2) IN [e |-> JetE("eq_1", g.es), s |-> g.s]
                          ELSE LET g == Gen(T1, ctx, d - 1, s2) IN [e |-> JetE("some_1", <<g.e>>), s |-> g.s])
                    ELSE (IF s1 % 2 = 0 THEN LET g == GenSeq(<<T1, T1>>, ctx, d - 1, s2) IN [e |-> JetE("xor_1", g.es), s |-> g.s]
                          ELSE LET g == Gen(T1, ctx, d - 1, s2) IN [e |-> JetE("complement_1", <<g.e>>), s |-> g.s])
    [] p = "block" ->
         LET lt == PickS(LetTypes, s1) g1 == Gen(lt, ctx, d - 1, s2) IN
         IF lt = TPair /\ g1.s % 2 = 0
         THEN LET g2 == Gen(ty, Extend(ctx, <<<<"t1", T1>>, <<"t2", T2>>>>), d - 1, g1.s)
              IN [e |-> BlkE(<<SLet(PTup(<<PId("t1"), PId("t2")>>), TPair, g1.e)>>, g2.e), s |-> g2.s]
         ELSE IF lt = TArr2 /\ g1.s % 2 = 0
         THEN LET g2 == Gen(ty, Extend(ctx, <<<<"t2", T2>>>>), d - 1, g1.s)
              IN [e |-> BlkE(<<SLet(PArr(<<PIgn, PId("t2")>>), TArr2, g1.e)>>, g2.e), s |-> g2.s]
         ELSE LET g2 == Gen(ty, Extend(ctx, <<<<"t", lt>>>>), d - 1, g1.s)
              IN [e |-> BlkE(<<SLet(PId("t"), lt, g1.e)>>, g2.e), s |-> g2.s]
    [] p = "match" ->
         LET st == PickS(ScrutTypes, s1)
             g0 == Gen(st, ctx, d - 1, s2)
             ctxL == IF st.k = "either" THEN Extend(ctx, <<<<"m", st.l>>>>) ELSE ctx
             ctxR == IF st.k = "either" THEN Extend(ctx, <<<<"m", st.r>>>>)
                     ELSE IF st.k = "opt" THEN Extend(ctx, <<<<"m", st.e>>>>) ELSE ctx
             ga == Gen(ty, ctxL, d - 1, g0.s)
             gb == Gen(ty, ctxR, d - 1, ga.s)
             arms == CASE st.k = "bool" -> <<Arm(MFalse, ga.e), Arm(MTrue, gb.e)>>
                       [] st.k = "opt" -> <<Arm(MNone, ga.e), Arm(MSome("m", st.e), gb.e)>>
                       [] st.k = "either" -> <<Arm(MLeft("m", st.l), ga.e), Arm(MRight("m", st.r), gb.e)>>
         IN [e |-> EMatch(g0.e, IF gb.s % 2 = 0 THEN arms ELSE <<arms[2], arms[1]>>), s |-> Nx(gb.s)]

\* ---- families and observation ---------------------------------------------------------------
NFam == IF Thorough THEN 16 ELSE 8
PerFam == IF Thorough THEN 400 ELSE 120
Depths == IF Thorough THEN <<2, 3, 3, 4>> ELSE <<2, 2, 3>>
DeepTypes == <<TBool, T1, T2, TOptU2, TEi, TPair, TArr2, TL4, TUnit, TOpt(TPair), TTup(<<T1, TBool, T2>>)>>
DeepFamilies == {[g |-> i] : i \in 0..(NFam - 1)}

U2(n) == VU(BitsOfNat(n, 2))
U1(n) == VU(BitsOfNat(n, 1))
WPoints == {("A" :> a) @@ ("B" :> b) @@ ("C" :> c) :
              a \in {VBool(FALSE), VBool(TRUE)}, b \in {VNone, VSome(U2(1)), VSome(U2(2))},
              c \in {VLeft(U1(0)), VLeft(U1(1)), VRight(U2(2))}}

DCtx == CtxOf(DDecls)
ValOfDeep(e, ty, w) ==
  LET m == MainCtx(FnDefs \o <<Main(Blk(<<>>))>>, G0)
      C == [fns |-> m.G.fns, al |-> m.G.al, wit |-> EmptyFn, args |-> EmptyFn, env |-> DummyEnv]
      rho == ("a" :> w["A"]) @@ ("b" :> w["B"]) @@ ("c" :> w["C"])
  IN Ev(e, ty, rho, C)

SpaceDeep(e, ty) ==
  LET ws == SetToSeq(WPoints)
      pts(w) == LET v == ValOfDeep(e, ty, w) IN
                IF IsFail(v) THEN <<w @@ ("EXP" :> ZeroVal(ty))>>
                ELSE LET others == Vals(ty, 2, 4) \ {v} IN
                     <<w @@ ("EXP" :> v)>> \o (IF others = {} THEN <<>> ELSE <<w @@ ("EXP" :> PickSet(others, Len(ws)))>>)
  IN Concat([i \in 1..Len(ws) |-> pts(ws[i])])

DeepProgramsOf(f) ==
  {LET s0 == (Seed * 7919 + f.g * 1009 + i * 31 + 1) % 65537
       ty == PickS(DeepTypes, s0)
       d == PickS(Depths, Nx(s0))
       g == Gen(ty, DCtx, d, Nx(Nx(s0)))
   IN [items |-> ObsProgram(FnDefs, DDecls, <<>>, ty, g.e), wdecls |-> ObsWitDecls(DDecls, ty), args |-> EmptyFn,
       space |-> SpaceDeep(g.e, ty)]
   : i \in 1..PerFam}
=============================================================================
