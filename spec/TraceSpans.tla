----------------------------- MODULE TraceSpans -----------------------------
(***************************************************************************)
(* C20: trace validation of rendered compile errors.                       *)
(* The harness records, for every rejected text, the file (as code points) *)
(* and the structure of the rendered message: the quoted `N | text` lines  *)
(* (number and code points) and the description that ends the message.     *)
(* It judges nothing.  This specification defines what the lines of a file *)
(* are and accepts a record exactly when every quoted line is line N of    *)
(* the file without its terminator, the numbers are consecutive and exist, *)
(* and the message ends with a non-empty description.                      *)
(*                                                                         *)
(* One event per TLC step; the trace is accepted when all events are       *)
(* consumed (the driver reads the depth of the search).                    *)
(***************************************************************************)
EXTENDS Naturals, Sequences, FiniteSets, TLC, Json, IOUtils, SequencesExt

Rec == ndJsonDeserialize(IOEnv.TRACE)

LF == 10
CR == 13

\* Lines of a file: maximal runs without LF; a line terminator is LF or CR LF; the (empty) rest after
\* the last terminator is not a line.  ends = positions of the terminating LFs (plus a virtual one
\* after the last character when the file does not end with LF).
LineEnds(f) == LET lfs == {i \in 1..Len(f) : f[i] = LF}
               IN SetToSortSeq(IF f # <<>> /\ f[Len(f)] # LF THEN lfs \cup {Len(f) + 1} ELSE lfs, <)
NumLines(f) == Len(LineEnds(f))
Line(f, k) == LET e == LineEnds(f)
                  lo == IF k = 1 THEN 1 ELSE e[k - 1] + 1
                  hi == e[k] - 1
                  raw == SubSeq(f, lo, hi)
              IN IF e[k] <= Len(f) /\ raw # <<>> /\ raw[Len(raw)] = CR THEN SubSeq(raw, 1, Len(raw) - 1) ELSE raw

Valid(r) ==
  LET q == r.quotes
  IN /\ \A i \in 1..Len(q) : q[i].n = q[1].n + i - 1                       \* consecutive
     /\ \A i \in 1..Len(q) : q[i].n \in 1..NumLines(r.file) /\ q[i].text = Line(r.file, q[i].n) \* line N, verbatim
     /\ r.desc # <<>>                                                        \* ends with the description
     /\ r.wellformed                                                         \* header / underline rows have the documented shape

VARIABLE l
Init == l = 1
Next == l <= Len(Rec) /\ Valid(Rec[l]) /\ l' = l + 1
Spec == Init /\ [][Next]_l
=============================================================================
