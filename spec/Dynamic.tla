------------------------------- MODULE Dynamic ------------------------------
(***************************************************************************)
(* Run-time meaning of Simfony (reference layer; book/src/let_statement.md,*)
(* match_expression.md, function.md, type_casting.md, program.md):         *)
(* strict call-by-value evaluation with lexical scoping.  A run either     *)
(* finishes (main returns) or panics (FAIL) - that verdict is the only     *)
(* thing a Simfony program can make observable.                            *)
(*                                                                         *)
(* Ev(e, ty, rho, C): value of e at type ty.                               *)
(*   rho : visible bindings, name -> value                                 *)
(*   C   : [fns, al, wit, args]  functions / aliases visible here,         *)
(*         witness values and template arguments by name                   *)
(***************************************************************************)
EXTENDS Static

IsFail(v) == v.k = "FAIL"

RECURSIVE BindPat(_, _, _)
\* sequence of <<name, value>> bound by matching v (of type t) against p
BindPat(p, v, t) ==
  CASE p.k = "id" -> <<<<p.x, v>>>>
    [] p.k = "ign" -> <<>>
    [] p.k = "ptup" -> Concat([i \in 1..Len(p.es) |-> BindPat(p.es[i], v.es[i], t.es[i])])
    [] p.k = "parr" -> Concat([i \in 1..Len(p.es) |-> BindPat(p.es[i], v.es[i], t.e)])

RECURSIVE Ev(_, _, _, _)
RECURSIVE EvSeq(_, _, _, _)
RECURSIVE EvBlock(_, _, _, _, _)
RECURSIVE FoldLoop(_, _, _, _, _)
RECURSIVE WhileLoop(_, _, _, _, _, _)

\* left-to-right; FAIL (a record) as soon as one fails, else the sequence of values
EvSeq(es, tys, rho, C) ==
  IF es = <<>> THEN [k |-> "vals", vs |-> <<>>]
  ELSE LET v == Ev(Head(es), Head(tys), rho, C) IN
       IF IsFail(v) THEN FAIL
       ELSE LET r == EvSeq(Tail(es), Tail(tys), rho, C) IN
            IF IsFail(r) THEN FAIL ELSE [k |-> "vals", vs |-> <<v>> \o r.vs]

EvBlock(ss, fin, ty, rho, C) ==
  IF ss = <<>> THEN (IF fin = <<>> THEN VUnit ELSE Ev(fin[1], ty, rho, C))
  ELSE LET s == Head(ss) IN
       IF s.k = "expr"
       THEN LET v == Ev(s.e, TUnit, rho, C) IN
            IF IsFail(v) THEN FAIL ELSE EvBlock(Tail(ss), fin, ty, rho, C)
       ELSE LET t == Resolve(s.t, C.al)
                v == Ev(s.e, t, rho, C)
            IN IF IsFail(v) THEN FAIL
               ELSE EvBlock(Tail(ss), fin, ty, Extend(rho, BindPat(s.p, v, t)), C)

\* body of function fn applied to argument values: sees only its parameters
Apply(fn, vs, C) ==
  Ev(fn.body, fn.ret,
     Extend(EmptyFn, [i \in 1..Len(vs) |-> <<fn.params[i].x, vs[i]>>]),
     [C EXCEPT !.fns = fn.fns, !.al = fn.al])

\* fold: f(e_k, ... f(e_2, f(e_1, init)))
FoldLoop(fn, es, i, acc, C) ==
  IF i > Len(es) THEN acc
  ELSE LET a == Apply(fn, <<es[i], acc>>, C) IN
       IF IsFail(a) THEN FAIL ELSE FoldLoop(fn, es, i + 1, a, C)

\* for_while: f(acc, ctx, i) for i = 0, 1, ...; first Left(b) ends the loop
WhileLoop(fn, acc, ctx, i, w, C) ==
  IF i = Pow2(w) THEN VRight(acc)
  ELSE LET r == Apply(fn, <<acc, ctx, VU(BitsOfNat(i, w))>>, C) IN
       IF IsFail(r) THEN FAIL
       ELSE IF r.k = "vleft" THEN r
       ELSE WhileLoop(fn, r.v, ctx, i + 1, w, C)

EvCall(e, ty, rho, C) ==
  LET f == e.f args == e.args IN
  CASE f.k = "jet" ->
         LET sig == JetSig(f.n)
             r == EvSeq(args, sig.args, rho, C)
         IN IF IsFail(r) THEN FAIL ELSE JetEvalEnv(f.n, r.vs, C.env)
    [] f.k = "unwrap_left" ->
         LET v == Ev(args[1], TEither(ty, Resolve(f.t, C.al)), rho, C) IN
         IF IsFail(v) THEN FAIL ELSE IF v.k = "vleft" THEN v.v ELSE FAIL
    [] f.k = "unwrap_right" ->
         LET v == Ev(args[1], TEither(Resolve(f.t, C.al), ty), rho, C) IN
         IF IsFail(v) THEN FAIL ELSE IF v.k = "vright" THEN v.v ELSE FAIL
    [] f.k = "is_none" ->
         LET v == Ev(args[1], TOpt(Resolve(f.t, C.al)), rho, C) IN
         IF IsFail(v) THEN FAIL ELSE VBool(v.k = "vnone")
    [] f.k = "unwrap" ->
         LET v == Ev(args[1], TOpt(ty), rho, C) IN
         IF IsFail(v) THEN FAIL ELSE IF v.k = "vsome" THEN v.v ELSE FAIL
    [] f.k = "assert" ->
         LET v == Ev(args[1], TBool, rho, C) IN
         IF IsFail(v) THEN FAIL ELSE IF v.bv THEN VUnit ELSE FAIL
    [] f.k = "panic" -> FAIL
    [] f.k = "dbg" -> Ev(args[1], ty, rho, C)
    [] f.k = "cast" ->
         LET s == Resolve(f.t, C.al)
             v == Ev(args[1], s, rho, C)
         IN IF IsFail(v) THEN FAIL ELSE CastValue(v, s, ty)
    [] f.k = "fn" ->
         LET fn == C.fns[f.n]
             r == EvSeq(args, [i \in 1..Len(args) |-> fn.params[i].t], rho, C)
         IN IF IsFail(r) THEN FAIL ELSE Apply(fn, r.vs, C)
    [] f.k = "fold" ->
         LET fn == C.fns[f.n]
             r == EvSeq(args, <<TList(fn.params[1].t, f.b), fn.params[2].t>>, rho, C)
         IN IF IsFail(r) THEN FAIL ELSE FoldLoop(fn, r.vs[1].es, 1, r.vs[2], C)
    [] f.k = "for_while" ->
         LET fn == C.fns[f.n]
             r == EvSeq(args, <<fn.params[1].t, fn.params[2].t>>, rho, C)
         IN IF IsFail(r) THEN FAIL ELSE WhileLoop(fn, r.vs[1], r.vs[2], 0, fn.params[3].t.n, C)

EvMatch(e, ty, rho, C) ==
  LET kind == MatchKind(e.arms)
      la == LeftArm(e.arms)
      ra == RightArm(e.arms)
      st == CASE kind = "either" -> TEither(Resolve(la.p.t, C.al), Resolve(ra.p.t, C.al))
              [] kind = "opt" -> TOpt(Resolve(ra.p.t, C.al))
              [] kind = "bool" -> TBool
      v == Ev(e.s, st, rho, C)
  IN IF IsFail(v) THEN FAIL
     ELSE CASE v.k = "vleft" -> Ev(la.e, ty, Extend(rho, <<<<la.p.x, v.v>>>>), C)
            [] v.k = "vright" -> Ev(ra.e, ty, Extend(rho, <<<<ra.p.x, v.v>>>>), C)
            [] v.k = "vnone" -> Ev(la.e, ty, rho, C)
            [] v.k = "vsome" -> Ev(ra.e, ty, Extend(rho, <<<<ra.p.x, v.v>>>>), C)
            [] v.k = "vbool" -> IF v.bv THEN Ev(ra.e, ty, rho, C) ELSE Ev(la.e, ty, rho, C)

Ev(e, ty, rho, C) ==
  CASE e.k = "bool" -> VBool(e.bv)
    [] e.k = "dec" -> VU(DecValue(e.s, ty.n))
    [] e.k = "bin" -> VU(BinValue(e.s, ty.n))
    [] e.k = "hex" -> HexValue(e.s, ty)
    [] e.k = "wit" -> C.wit[e.n]
    [] e.k = "param" -> C.args[e.n]
    [] e.k = "var" -> rho[e.x]
    [] e.k = "paren" -> Ev(e.e, ty, rho, C)
    [] e.k = "tuple" -> LET r == EvSeq(e.es, ty.es, rho, C) IN IF IsFail(r) THEN FAIL ELSE VTup(r.vs)
    [] e.k = "array" -> LET r == EvSeq(e.es, Rep(ty.e, ty.n), rho, C) IN IF IsFail(r) THEN FAIL ELSE VArr(r.vs)
    [] e.k = "list" -> LET r == EvSeq(e.es, Rep(ty.e, Len(e.es)), rho, C) IN IF IsFail(r) THEN FAIL ELSE VList(r.vs)
    [] e.k = "left" -> LET v == Ev(e.e, ty.l, rho, C) IN IF IsFail(v) THEN FAIL ELSE VLeft(v)
    [] e.k = "right" -> LET v == Ev(e.e, ty.r, rho, C) IN IF IsFail(v) THEN FAIL ELSE VRight(v)
    [] e.k = "none" -> VNone
    [] e.k = "some" -> LET v == Ev(e.e, ty.e, rho, C) IN IF IsFail(v) THEN FAIL ELSE VSome(v)
    [] e.k = "call" -> EvCall(e, ty, rho, C)
    [] e.k = "match" -> EvMatch(e, ty, rho, C)
    [] e.k = "block" -> EvBlock(e.ss, e.fin, ty, rho, C)

\* Verdict of a well-formed program on a witness assignment and template arguments:
\* TRUE = main finishes, FALSE = panic.
RunSrcEnv(m, wit, args, env) ==
  LET C == [fns |-> m.G.fns, al |-> m.G.al, wit |-> wit, args |-> args, env |-> env]
  IN ~IsFail(Ev(m.body, TUnit, EmptyFn, C))
RunSrcM(m, wit, args) == RunSrcEnv(m, wit, args, DummyEnv)
RunSrc(items, wit, args) == RunSrcM(MainCtx(items, G0), wit, args)
=============================================================================
