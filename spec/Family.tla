------------------------------- MODULE Family -------------------------------
(***************************************************************************)
(* Generators: the quantifiers of the properties.  Type-directed           *)
(* enumeration of expressions, the Observe wrapper that makes a value      *)
(* observable through success / failure, witness spaces.                   *)
(***************************************************************************)
EXTENDS Codegen

\* ---- helpers -----------------------------------------------------------------------
Call1(f, a) == ECall(f, <<a>>)
AssertE(e) == Call1(CAssert, e)
JetE(n, args) == ECall(CJet(n), args)
CastE(s, e) == Call1(CCast(s), e)
Blk(ss) == EBlock(ss, <<>>)
BlkE(ss, e) == EBlock(ss, <<e>>)
V(x) == EVar(x)

PNames == <<"p1", "p2", "p3", "p4", "p5", "p6", "p7", "p8">>
QNames == <<"q1", "q2", "q3", "q4", "q5", "q6", "q7", "q8">>

EqWidths == {1, 8, 16, 32, 64, 256}
EqJet(n) == CASE n = 1 -> "eq_1" [] n = 8 -> "eq_8" [] n = 16 -> "eq_16" [] n = 32 -> "eq_32"
              [] n = 64 -> "eq_64" [] n = 256 -> "eq_256"

\* the documented structure of a list type (type_casting.md)
ListStructTy(e, b) == IF b = 2 THEN TOpt(e) ELSE TTup(<<TOpt(TArr(e, b \div 2)), TList(e, b \div 2)>>)

RECURSIVE Obs(_, _, _)
\* Obs(ty, x, y): statements that finish iff the variables x and y (both of type ty) hold equal
\* values; otherwise the program panics.  Nested blocks re-use the names p1.., q1.. (shadowing).
Obs(ty, x, y) ==
  CASE ty.k = "bool" -> <<SExpr(AssertE(JetE("eq_1", <<CastE(TBool, V(x)), CastE(TBool, V(y))>>)))>>
    [] ty.k = "u" ->
         IF ty.n \in EqWidths THEN <<SExpr(AssertE(JetE(EqJet(ty.n), <<V(x), V(y)>>)))>>
         ELSE LET h == TU(ty.n \div 2) hh == TTup(<<h, h>>) IN
              <<SLet(PTup(<<PId("p1"), PId("p2")>>), hh, CastE(ty, V(x))),
                SLet(PTup(<<PId("q1"), PId("q2")>>), hh, CastE(ty, V(y))),
                SExpr(Blk(Obs(h, "p1", "q1"))), SExpr(Blk(Obs(h, "p2", "q2")))>>
    [] ty.k = "tup" ->
         IF ty.es = <<>> THEN <<>>
         ELSE LET n == Len(ty.es) IN
              <<SLet(PTup([i \in 1..n |-> PId(PNames[i])]), ty, V(x)),
                SLet(PTup([i \in 1..n |-> PId(QNames[i])]), ty, V(y))>>
              \o [i \in 1..n |-> SExpr(Blk(Obs(ty.es[i], PNames[i], QNames[i])))]
    [] ty.k = "arr" ->
         IF ty.n = 0 THEN <<>>
         ELSE IF ty.n > 8
         THEN \* a long array is cast to the pair of its two blocks (documented layout) and compared block-wise
              LET r == LargestPow2Below(ty.n)
                  st == TTup(<<TArr(ty.e, ty.n - r), TArr(ty.e, r)>>)
              IN <<SLet(PId("p1"), st, CastE(ty, V(x))), SLet(PId("q1"), st, CastE(ty, V(y))), SExpr(Blk(Obs(st, "p1", "q1")))>>
         ELSE <<SLet(PArr([i \in 1..ty.n |-> PId(PNames[i])]), ty, V(x)),
                SLet(PArr([i \in 1..ty.n |-> PId(QNames[i])]), ty, V(y))>>
              \o [i \in 1..ty.n |-> SExpr(Blk(Obs(ty.e, PNames[i], QNames[i])))]
    [] ty.k = "opt" ->
         <<SExpr(EMatch(V(x), <<Arm(MNone, AssertE(Call1(CIsNone(ty.e), V(y)))),
                                Arm(MSome("p1", ty.e), Blk(<<SLet(PId("q1"), ty.e, Call1(CUnwrap, V(y)))>>
                                                          \o Obs(ty.e, "p1", "q1")))>>))>>
    [] ty.k = "either" ->
         <<SExpr(EMatch(V(x), <<Arm(MLeft("p1", ty.l), Blk(<<SLet(PId("q1"), ty.l, Call1(CUnwrapLeft(ty.r), V(y)))>>
                                                           \o Obs(ty.l, "p1", "q1"))),
                                Arm(MRight("p1", ty.r), Blk(<<SLet(PId("q1"), ty.r, Call1(CUnwrapRight(ty.l), V(y)))>>
                                                            \o Obs(ty.r, "p1", "q1")))>>))>>
    [] ty.k = "list" ->
         LET st == ListStructTy(ty.e, ty.b) IN
         <<SLet(PId("p1"), st, CastE(ty, V(x))), SLet(PId("q1"), st, CastE(ty, V(y))),
           SExpr(Blk(Obs(st, "p1", "q1")))>>

\* ---- literals of a type ----------------------------------------------------------------
RECURSIVE LitOf(_, _)
\* a literal expression denoting value v of type ty
LitOf(v, ty) ==
  CASE ty.k = "bool" -> EBool(v.bv)
    [] ty.k = "u" -> IF ty.n <= 4 THEN Dec(NatOfBits(v.bits))
                     ELSE IF ty.n = 8 THEN (IF v.bits[1] = 1 THEN BinLit(v.bits) ELSE Dec(NatOfBits(v.bits)))
                     ELSE HexLit(v.bits)
    [] ty.k = "tup" -> ETuple([i \in 1..Len(ty.es) |-> LitOf(v.es[i], ty.es[i])])
    [] ty.k = "arr" -> EArray([i \in 1..ty.n |-> LitOf(v.es[i], ty.e)])
    [] ty.k = "list" -> EList([i \in 1..Len(v.es) |-> LitOf(v.es[i], ty.e)])
    [] ty.k = "opt" -> IF v.k = "vnone" THEN ENone ELSE ESome(LitOf(v.v, ty.e))
    [] ty.k = "either" -> IF v.k = "vleft" THEN ELeft(LitOf(v.v, ty.l)) ELSE ERight(LitOf(v.v, ty.r))

\* ---- witness spaces ----------------------------------------------------------------------
\* all assignments name -> value for a sequence of <<name, type>> (each type's Vals, capped)
RECURSIVE WitSpace(_, _)
WitSpace(decls, cap) ==
  IF decls = <<>> THEN {EmptyFn}
  ELSE LET d == Head(decls)
           vs == Vals(d[2], cap, 4)
       IN {Extend(w, <<<<d[1], v>>>>) : w \in WitSpace(Tail(decls), cap), v \in vs}

\* ---- programs of the form:  witnesses; body; let r: T = e; observe r against witness EXP ----
WitLets(decls) == [i \in 1..Len(decls) |-> SLet(PId(decls[i][3]), decls[i][2], EWit(decls[i][1]))]

\* decls: sequence of <<WITNESS NAME, type, variable>>; pre: statements; T: result type; e: expression
ObsProgram(defs, decls, pre, T, e) ==
  defs \o <<Main(Blk(WitLets(decls) \o pre
                    \o <<SLet(PId("r"), T, e), SLet(PId("x"), T, EWit("EXP"))>> \o Obs(T, "r", "x")))>>
ObsWitDecls(decls, T) == [i \in 1..Len(decls) |-> <<decls[i][1], decls[i][2]>>] \o <<<<"EXP", T>>>>
=============================================================================
