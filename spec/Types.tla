-------------------------------- MODULE Types -------------------------------
(***************************************************************************)
(* Simfony types (book/src/type.md), their documented structural layout    *)
(* (book/src/type_casting.md), typed values and the conversion of values   *)
(* to and from Simplicity's structural values.  Reference layer: written   *)
(* from the book, not from the Rust.                                       *)
(***************************************************************************)
EXTENDS Base

\* ---- source-level types -------------------------------------------------
TBool == [k |-> "bool"]
TU(n) == [k |-> "u", n |-> n]
TTup(es) == [k |-> "tup", es |-> es]
TUnit == TTup(<<>>)
TArr(e, n) == [k |-> "arr", e |-> e, n |-> n]
TList(e, b) == [k |-> "list", e |-> e, b |-> b]
TOpt(e) == [k |-> "opt", e |-> e]
TEither(l, r) == [k |-> "either", l |-> l, r |-> r]
TAlias(name) == [k |-> "alias", name |-> name]      \* only before resolution
TBuiltin(name) == [k |-> "builtin", name |-> name]  \* only before resolution

UIntWidths == {1, 2, 4, 8, 16, 32, 64, 128, 256}

\* The 24 builtin aliases of the book (type_alias.md).
BuiltinAliasNames ==
  {"Ctx8", "Pubkey", "Message64", "Message", "Signature", "Scalar", "Fe", "Gej", "Ge", "Point",
   "Height", "Time", "Distance", "Duration", "Lock", "Outpoint", "Confidential1", "ExplicitAsset",
   "Asset1", "ExplicitAmount", "Amount1", "ExplicitNonce", "Nonce", "TokenAmount1"}

BuiltinAlias(name) ==
  LET u1 == TU(1) u8 == TU(8) u16 == TU(16) u32 == TU(32) u64 == TU(64) u256 == TU(256)
      Fe == u256
      Ge == TTup(<<Fe, Fe>>)
      Point == TTup(<<u1, Fe>>)
  IN CASE name = "Ctx8" -> TTup(<<TList(u8, 64), TTup(<<u64, u256>>)>>)
       [] name = "Pubkey" -> u256
       [] name = "Message64" -> TArr(u8, 64)
       [] name = "Message" -> u256
       [] name = "Signature" -> TArr(u8, 64)
       [] name = "Scalar" -> u256
       [] name = "Fe" -> Fe
       [] name = "Gej" -> TTup(<<Ge, Fe>>)
       [] name = "Ge" -> Ge
       [] name = "Point" -> Point
       [] name = "Height" -> u32
       [] name = "Time" -> u32
       [] name = "Distance" -> u16
       [] name = "Duration" -> u16
       [] name = "Lock" -> u32
       [] name = "Outpoint" -> TTup(<<u256, u32>>)
       [] name = "Confidential1" -> Point
       [] name = "ExplicitAsset" -> u256
       [] name = "Asset1" -> TEither(Point, u256)
       [] name = "ExplicitAmount" -> u64
       [] name = "Amount1" -> TEither(Point, u64)
       [] name = "ExplicitNonce" -> u256
       [] name = "Nonce" -> TEither(Point, u256)
       [] name = "TokenAmount1" -> TEither(Point, u64)

UNDEF == [k |-> "undef"]
RECURSIVE Resolve(_, _)
\* Resolve(ty, aliases): replace alias names by their definition.  aliases is a
\* function name -> resolved type.  Result: a resolved type or UNDEF.
Resolve(ty, aliases) ==
  CASE ty.k = "alias" -> IF ty.name \in DOMAIN aliases THEN aliases[ty.name] ELSE UNDEF
    [] ty.k = "builtin" -> BuiltinAlias(ty.name)
    [] ty.k \in {"bool", "u"} -> ty
    [] ty.k = "tup" ->
         LET rs == [i \in 1..Len(ty.es) |-> Resolve(ty.es[i], aliases)]
         IN IF \E i \in 1..Len(rs) : rs[i].k = "undef" THEN UNDEF ELSE TTup(rs)
    [] ty.k = "arr" -> LET r == Resolve(ty.e, aliases) IN IF r.k = "undef" THEN UNDEF ELSE TArr(r, ty.n)
    [] ty.k = "list" -> LET r == Resolve(ty.e, aliases) IN IF r.k = "undef" THEN UNDEF ELSE TList(r, ty.b)
    [] ty.k = "opt" -> LET r == Resolve(ty.e, aliases) IN IF r.k = "undef" THEN UNDEF ELSE TOpt(r)
    [] ty.k = "either" ->
         LET l == Resolve(ty.l, aliases) r == Resolve(ty.r, aliases)
         IN IF l.k = "undef" \/ r.k = "undef" THEN UNDEF ELSE TEither(l, r)

\* ---- structural (Simplicity) types ---------------------------------------
SUnit == [k |-> "1"]
SSum(a, b) == [k |-> "+", a |-> a, b |-> b]
SProd(a, b) == [k |-> "*", a |-> a, b |-> b]
SBit == SSum(SUnit, SUnit)

RECURSIVE SWord(_)
\* uN as nested pairs of halves down to bits
SWord(n) == IF n = 1 THEN SBit ELSE LET h == SWord(n \div 2) IN SProd(h, h)

\* "the right part holds the largest power of two strictly below n elements"
LargestPow2BelowDef(n) == CHOOSE p \in 1..(n - 1) : IsPow2(p) /\ 2 * p >= n
\* (the definition above in closed form: it is used at every node of every balanced tree; MC_LayoutMachines
\* ASSUMEs that the two agree for 2..600)
LargestPow2Below(n) == Pow2(Log2(n - 1))

\* One balanced-tree builder for the four kinds of tree that use the layout:
\* structural types, structural values, base patterns and Simplicity terms.
Mk2(kind, a, b) ==
  CASE kind = "type" -> SProd(a, b)
    [] kind = "val" -> <<"P", a, b>>
    [] kind = "pat" -> [k |-> "pprod", a |-> a, b |-> b]
    [] kind = "term" -> [k |-> "pair", a |-> a, b |-> b]
Mk0(kind) ==
  CASE kind = "type" -> SUnit
    [] kind = "val" -> <<"U">>
    [] kind = "pat" -> [k |-> "pign"]
    [] kind = "term" -> [k |-> "unit"]

RECURSIVE BalFold(_, _)
BalFold(xs, kind) ==
  LET n == Len(xs) IN
  IF n = 0 THEN Mk0(kind)
  ELSE IF n = 1 THEN xs[1]
  ELSE LET r == LargestPow2Below(n)
           l == n - r
       IN Mk2(kind, BalFold(SubSeq(xs, 1, l), kind), BalFold(SubSeq(xs, l + 1, n), kind))

RECURSIVE ListStruct(_, _)
\* List<A, 2^k> = (Option<[A; 2^(k-1)]>, List<A, 2^(k-1)>),  List<A, 2> = Option<A>
ListStruct(se, b) ==
  IF b = 2 THEN SSum(SUnit, se)
  ELSE SProd(SSum(SUnit, BalFold(Rep(se, b \div 2), "type")), ListStruct(se, b \div 2))

RECURSIVE Struct(_)
Struct(ty) ==
  CASE ty.k = "bool" -> SBit
    [] ty.k = "u" -> SWord(ty.n)
    [] ty.k = "tup" -> BalFold([i \in 1..Len(ty.es) |-> Struct(ty.es[i])], "type")
    [] ty.k = "arr" -> BalFold(Rep(Struct(ty.e), ty.n), "type")
    [] ty.k = "list" -> ListStruct(Struct(ty.e), ty.b)
    [] ty.k = "opt" -> SSum(SUnit, Struct(ty.e))
    [] ty.k = "either" -> SSum(Struct(ty.l), Struct(ty.r))

\* A cast <S>::into at target type T is allowed iff the layouts are equal.
CastOK(s, t) == Struct(s) = Struct(t)

\* ---- typed values ---------------------------------------------------------
\* Values do not carry their type; the type is supplied by the context.
VBool(b) == [k |-> "vbool", bv |-> b]
VU(bits) == [k |-> "vu", bits |-> bits]
VTup(es) == [k |-> "vtup", es |-> es]
VUnit == VTup(<<>>)
VArr(es) == [k |-> "varr", es |-> es]
VList(es) == [k |-> "vlist", es |-> es]
VNone == [k |-> "vnone"]
VSome(v) == [k |-> "vsome", v |-> v]
VLeft(v) == [k |-> "vleft", v |-> v]
VRight(v) == [k |-> "vright", v |-> v]

\* ---- structural values:  <<"U">>  <<"L", v>>  <<"R", v>>  <<"P", a, b>> ------
SVU == <<"U">>
SVL(v) == <<"L", v>>
SVR(v) == <<"R", v>>
SVP(a, b) == <<"P", a, b>>
SVBit(b) == IF b = 1 THEN SVR(SVU) ELSE SVL(SVU)

\* a word of 2^k bits is the perfectly balanced tree of its bits
WordToStruct(bits) == BalFold([i \in 1..Len(bits) |-> SVBit(bits[i])], "val")

RECURSIVE ToStruct(_, _)
RECURSIVE ListToStruct(_, _, _)
ListToStruct(es, te, b) ==
  LET blk(xs) == BalFold([i \in 1..Len(xs) |-> ToStruct(xs[i], te)], "val") IN
  IF b = 2 THEN (IF es = <<>> THEN SVL(SVU) ELSE SVR(ToStruct(es[1], te)))
  ELSE LET h == b \div 2 IN
       IF Len(es) >= h
       THEN SVP(SVR(blk(SubSeq(es, 1, h))), ListToStruct(SubSeq(es, h + 1, Len(es)), te, h))
       ELSE SVP(SVL(SVU), ListToStruct(es, te, h))

ToStruct(v, ty) ==
  CASE ty.k = "bool" -> IF v.bv THEN SVR(SVU) ELSE SVL(SVU)
    [] ty.k = "u" -> WordToStruct(v.bits)
    [] ty.k = "tup" -> BalFold([i \in 1..Len(ty.es) |-> ToStruct(v.es[i], ty.es[i])], "val")
    [] ty.k = "arr" -> BalFold([i \in 1..ty.n |-> ToStruct(v.es[i], ty.e)], "val")
    [] ty.k = "list" -> ListToStruct(v.es, ty.e, ty.b)
    [] ty.k = "opt" -> IF v.k = "vnone" THEN SVL(SVU) ELSE SVR(ToStruct(v.v, ty.e))
    [] ty.k = "either" -> IF v.k = "vleft" THEN SVL(ToStruct(v.v, ty.l)) ELSE SVR(ToStruct(v.v, ty.r))

\* ---- reading a structural value back at a type ----------------------------
RECURSIVE UnBal(_, _)
\* leaves of the balanced tree with n leaves
UnBal(sv, n) ==
  IF n = 0 THEN <<>>
  ELSE IF n = 1 THEN <<sv>>
  ELSE LET r == LargestPow2Below(n) IN UnBal(sv[2], n - r) \o UnBal(sv[3], r)

BitOfStruct(sv) == IF sv[1] = "R" THEN 1 ELSE 0

RECURSIVE Reconstruct(_, _)
RECURSIVE ListFromStruct(_, _, _)
ListFromStruct(sv, te, b) ==
  IF b = 2 THEN (IF sv[1] = "L" THEN <<>> ELSE <<Reconstruct(sv[2], te)>>)
  ELSE LET h == b \div 2
           blk == sv[2]
           here == IF blk[1] = "L" THEN <<>>
                   ELSE LET ls == UnBal(blk[2], h) IN [i \in 1..h |-> Reconstruct(ls[i], te)]
       IN here \o ListFromStruct(sv[3], te, h)

Reconstruct(sv, ty) ==
  CASE ty.k = "bool" -> VBool(sv[1] = "R")
    [] ty.k = "u" -> LET ls == UnBal(sv, ty.n) IN VU([i \in 1..ty.n |-> BitOfStruct(ls[i])])
    [] ty.k = "tup" -> LET ls == UnBal(sv, Len(ty.es)) IN VTup([i \in 1..Len(ty.es) |-> Reconstruct(ls[i], ty.es[i])])
    [] ty.k = "arr" -> LET ls == UnBal(sv, ty.n) IN VArr([i \in 1..ty.n |-> Reconstruct(ls[i], ty.e)])
    [] ty.k = "list" -> VList(ListFromStruct(sv, ty.e, ty.b))
    [] ty.k = "opt" -> IF sv[1] = "L" THEN VNone ELSE VSome(Reconstruct(sv[2], ty.e))
    [] ty.k = "either" -> IF sv[1] = "L" THEN VLeft(Reconstruct(sv[2], ty.l)) ELSE VRight(Reconstruct(sv[2], ty.r))

\* A cast leaves the bits unchanged.
CastValue(v, s, t) == Reconstruct(ToStruct(v, s), t)

\* ---- flat bit encoding (Simplicity's padded encoding is not needed: the
\*      harness compares structural trees) -- compact bits, for reference ----
RECURSIVE CompactBits(_)
CompactBits(sv) ==
  CASE sv[1] = "U" -> <<>>
    [] sv[1] = "L" -> <<0>> \o CompactBits(sv[2])
    [] sv[1] = "R" -> <<1>> \o CompactBits(sv[2])
    [] sv[1] = "P" -> CompactBits(sv[2]) \o CompactBits(sv[3])

\* ---- well-typedness of a structural value ---------------------------------
RECURSIVE SVOfType(_, _)
SVOfType(sv, st) ==
  CASE st.k = "1" -> sv = SVU
    [] st.k = "+" -> \/ sv[1] = "L" /\ SVOfType(sv[2], st.a)
                     \/ sv[1] = "R" /\ SVOfType(sv[2], st.b)
    [] st.k = "*" -> sv[1] = "P" /\ SVOfType(sv[2], st.a) /\ SVOfType(sv[3], st.b)

\* ---- small value universes ------------------------------------------------
RECURSIVE AllBits(_)
AllBits(n) == IF n = 0 THEN {<<>>} ELSE {<<b>> \o r : b \in {0, 1}, r \in AllBits(n - 1)}

\* boundary bit patterns of width n (n >= 8)
EdgeBits(n) == {ZeroBits(n), OneBits(n), ZeroBits(n - 1) \o <<1>>, <<1>> \o ZeroBits(n - 1),
                [i \in 1..n |-> i % 2], [i \in 1..n |-> IF i <= n \div 2 THEN 0 ELSE 1],
                [i \in 1..n |-> IF i % 8 \in {1, 2, 5} THEN 1 ELSE 0]}

RECURSIVE SeqsOver(_, _)
\* all sequences of length n over set S
SeqsOver(S, n) == IF n = 0 THEN {<<>>} ELSE {<<x>> \o r : x \in S, r \in SeqsOver(S, n - 1)}

RECURSIVE TupleVals(_)
\* cartesian product of a sequence of sets, as sequences
TupleVals(sets) == IF sets = <<>> THEN {<<>>} ELSE {<<x>> \o r : x \in Head(sets), r \in TupleVals(Tail(sets))}

\* list lengths explored for bound b: all of them up to `full`, boundary lengths above
ListLens(b, full) ==
  IF b <= full THEN 0..(b - 1)
  ELSE {0, 1, b \div 2 - 1, b \div 2, b \div 2 + 1, b - 2, b - 1}

RECURSIVE Vals(_, _, _)
\* Vals(ty, cap, full): all values of ty when the domain is small, boundary samples
\* otherwise.  cap bounds the container size up to which all element combinations
\* are taken; full is the list bound up to which every length is taken.
Vals(ty, cap, full) ==
  CASE ty.k = "bool" -> {VBool(FALSE), VBool(TRUE)}
    [] ty.k = "u" -> IF ty.n <= 4 THEN {VU(b) : b \in AllBits(ty.n)} ELSE {VU(b) : b \in EdgeBits(ty.n)}
    [] ty.k = "tup" -> {VTup(es) : es \in TupleVals([i \in 1..Len(ty.es) |-> Vals(ty.es[i], cap, full)])}
    [] ty.k = "arr" ->
         LET ev == Vals(ty.e, cap, full) IN
         IF ty.n <= cap THEN {VArr(es) : es \in SeqsOver(ev, ty.n)}
         ELSE \* too many: rotate through the element values
              LET evs == SetToSeq(ev)
              IN {VArr([i \in 1..ty.n |-> evs[((i + o) % Len(evs)) + 1]]) : o \in 0..Min2(Len(evs) - 1, 3)}
    [] ty.k = "list" ->
         LET ev == Vals(ty.e, cap, full) IN
         UNION {IF n <= cap THEN {VList(es) : es \in SeqsOver(ev, n)}
                ELSE LET evs == SetToSeq(ev)
                     IN {VList([i \in 1..n |-> evs[((i + o) % Len(evs)) + 1]]) : o \in 0..Min2(Len(evs) - 1, 1)}
                : n \in ListLens(ty.b, full)}
    [] ty.k = "opt" -> {VNone} \cup {VSome(v) : v \in Vals(ty.e, cap, full)}
    [] ty.k = "either" -> {VLeft(v) : v \in Vals(ty.l, cap, full)} \cup {VRight(v) : v \in Vals(ty.r, cap, full)}

\* a canonical default value (all zero bits) of a type
RECURSIVE ZeroVal(_)
ZeroVal(ty) ==
  CASE ty.k = "bool" -> VBool(FALSE)
    [] ty.k = "u" -> VU(ZeroBits(ty.n))
    [] ty.k = "tup" -> VTup([i \in 1..Len(ty.es) |-> ZeroVal(ty.es[i])])
    [] ty.k = "arr" -> VArr(Rep(ZeroVal(ty.e), ty.n))
    [] ty.k = "list" -> VList(<<>>)
    [] ty.k = "opt" -> VNone
    [] ty.k = "either" -> VLeft(ZeroVal(ty.l))
=============================================================================
