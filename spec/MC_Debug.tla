------------------------------ MODULE MC_Debug ------------------------------
(***************************************************************************)
(* C14: debug symbols.  Programs whose tracked calls (assert!, panic!,     *)
(* unwrap*, dbg!, jets) occur in main, in functions that are called twice, *)
(* in a function that is never called, inside fold and for_while bodies    *)
(* and in match arms; dbg! with arguments of several syntactic forms       *)
(* (variable, literal, tuple, call, nested dbg!, block).  The model        *)
(* predicts the set of call sites that are part of the compiled program    *)
(* (ReachableSites, Static.tla), their text and kind, and sample input     *)
(* values; DebugNeutral / CompileCorrect are checked on every program.     *)
(***************************************************************************)
EXTENDS ProgMC

T1 == TU(1)
T2 == TU(2)
T8 == TU(8)
TE == TEither(T2, T1)
TO == TOpt(T2)

\* expressions of type u2 that contain one tracked call (over a: u2, o: Option<u2>, e: Either<u2,u1>)
Tracked ==
  {Call1(CDbg, V("a")), Call1(CDbg, Dec(2)), Call1(CDbg, EParen(V("a"))),
   Call1(CDbg, Call1(CUnwrap, V("o"))), Call1(CDbg, ECall(CFn("idf"), <<V("a")>>)),
   Call1(CDbg, BlkE(<<SLet(PId("t"), T2, V("a"))>>, V("t"))), Call1(CDbg, Call1(CDbg, V("a"))),
   Call1(CUnwrap, V("o")), Call1(CUnwrap, ESome(V("a"))), Call1(CUnwrapLeft(T1), V("e")), Call1(CUnwrapLeft(T1), ELeft(V("a"))),
   Call1(CUnwrapRight(T8), ERight(V("a"))),
   BlkE(<<SExpr(AssertE(JetE("eq_1", <<Dec(1), Dec(1)>>)))>>, V("a")),
   EMatch(V("o"), <<Arm(MNone, ECall(CPanic, <<>>)), Arm(MSome("v", T2), V("v"))>>),
   BlkE(<<SLet(PTup(<<PId("x"), PId("y")>>), TTup(<<T2, T1>>), Call1(CDbg, ETuple(<<V("a"), Dec(1)>>)))>>, V("x")),
   CastE(TTup(<<T1, T1>>), Call1(CDbg, ETuple(<<JetE("complement_1", <<Dec(1)>>), JetE("xor_1", <<Dec(1), Dec(0)>>)>>))),
   \* dbg! / unwrap_left of compound values that contain None / Left / Right next to other components (value reconstruction)
   BlkE(<<SLet(PTup(<<PId("x"), PIgn>>), TTup(<<T2, TOpt(T1)>>), Call1(CDbg, ETuple(<<V("a"), ENone>>)))>>, V("x")),
   BlkE(<<SLet(PTup(<<PId("x"), PIgn>>), TTup(<<T2, TO>>), Call1(CDbg, ETuple(<<V("a"), V("o")>>)))>>, V("x")),
   BlkE(<<SLet(PIgn, TArr(TOpt(T1), 3), Call1(CDbg, EArray(<<ESome(Dec(1)), ENone, ESome(Dec(0))>>)))>>, V("a")),
   BlkE(<<SLet(PTup(<<PId("x"), PIgn>>), TTup(<<T2, TEither(T2, T1)>>), Call1(CDbg, ETuple(<<V("a"), V("e")>>)))>>, V("x")),
   BlkE(<<SLet(PTup(<<PId("x"), PIgn>>), TTup(<<T2, TO>>),
               Call1(CUnwrapLeft(T1), ELeft(ETuple(<<V("a"), V("o")>>))))>>, V("x")),
   BlkE(<<SLet(PIgn, TList(TO, 4), Call1(CDbg, EList(<<V("o"), ENone, ESome(V("a"))>>)))>>, V("a"))}

IdF == IFn("idf", <<Param("a", T2)>>, <<T2>>, BlkE(<<>>, V("a")))
\* positions
InMain(t) == [defs |-> <<IdF>>, pre |-> <<>>, e |-> t]
InFnTwice(t) ==
  [defs |-> <<IdF, IFn("site", <<Param("a", T2), Param("o", TO), Param("e", TE)>>, <<T2>>, BlkE(<<>>, t))>>,
   pre |-> <<SLet(PId("first"), T2, ECall(CFn("site"), <<V("a"), V("o"), V("e")>>))>>,
   e |-> ECall(CFn("site"), <<V("a"), V("o"), V("e")>>)]
InFnNever(t) ==
  [defs |-> <<IdF, IFn("never", <<Param("a", T2), Param("o", TO), Param("e", TE)>>, <<T2>>, BlkE(<<>>, t))>>,
   pre |-> <<>>, e |-> Call1(CDbg, V("a"))]
InArm(t) == [defs |-> <<IdF>>, pre |-> <<>>,
             e |-> EMatch(JetE("some_1", <<CastE(TBool, EBool(TRUE))>>), <<Arm(MTrue, t), Arm(MFalse, Call1(CDbg, Dec(3)))>>)]
InFold(t) ==
  [defs |-> <<IdF, IFn("step", <<Param("x", TTup(<<T2, TO, TE>>)), Param("s", T2)>>, <<T2>>,
                       BlkE(<<SLet(PTup(<<PId("a"), PId("o"), PId("e")>>), TTup(<<T2, TO, TE>>), V("x"))>>, t))>>,
   pre |-> <<>>,
   e |-> ECall(CFold("step", 4), <<EList(<<ETuple(<<V("a"), V("o"), V("e")>>), ETuple(<<Dec(1), V("o"), V("e")>>)>>), Dec(0)>>)]
InLoop(t) ==
  [defs |-> <<IdF, IFn("body", <<Param("s", T2), Param("c", TTup(<<T2, TO, TE>>)), Param("i", T1)>>, <<TEither(TUnit, T2)>>,
                       BlkE(<<SLet(PTup(<<PId("a"), PId("o"), PId("e")>>), TTup(<<T2, TO, TE>>), V("c"))>>, ERight(t)))>>,
   pre |-> <<>>,
   e |-> Call1(CUnwrapRight(TUnit), ECall(CForWhile("body"), <<Dec(0), ETuple(<<V("a"), V("o"), V("e")>>)>>))]

Positions(t) == <<InMain(t), InFnTwice(t), InFnNever(t), InArm(t), InFold(t), InLoop(t)>>

Decls == <<<<"A", T2, "a">>, <<"O", TO, "o">>, <<"E", TE, "e">>>>

U2(n) == VU(BitsOfNat(n, 2))
Space == SetToSeq({("A" :> a) @@ ("O" :> o) @@ ("E" :> e) @@ ("EXP" :> x) :
                     a \in {U2(1), U2(2)}, o \in {VNone, VSome(U2(2))}, e \in {VLeft(U2(1)), VRight(VU(<<1>>))}, x \in {U2(1), U2(2)}})

\* more tracked calls in one program than one byte can number: 300 dbg! statements with pairwise different texts in
\* front of the probed one (distinct call sites must get distinct markers whatever their number)
Many == [defs |-> <<IdF>>, pre |-> [i \in 1..300 |-> SLet(PIgn, TU(16), Call1(CDbg, Dec(1000 + i)))], e |-> Call1(CDbg, V("a"))]

DbFamilies == {[pos |-> i] : i \in 1..7}
DbProgramsOf(f) ==
  IF f.pos = 7
  THEN {[items |-> ObsProgram(Many.defs, Decls, Many.pre, T2, Many.e), wdecls |-> ObsWitDecls(Decls, T2), args |-> EmptyFn,
         space |-> SubSeq(Space, 1, 2), tag |-> "debug"]}
  ELSE
  {LET p == Positions(t)[f.pos] IN
   [items |-> ObsProgram(p.defs, Decls, p.pre, T2, p.e), wdecls |-> ObsWitDecls(Decls, T2), args |-> EmptyFn,
    space |-> Space, tag |-> "debug"]
     : t \in Tracked}
=============================================================================
