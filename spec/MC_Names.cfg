SPECIFICATION Spec
CONSTANTS
  Families <- NmFamilies
  ProgramsOf <- NmProgramsOf
INVARIANT GeneratedWellFormed
INVARIANT WitnessTypesAsDeclared
INVARIANT CompileCorrect
INVARIANT DebugNeutral
INVARIANT CodegenTotal
INVARIANT SubstEquivalent
INVARIANT Emit
CHECK_DEADLOCK FALSE
