SPECIFICATION Spec
CONSTANTS
  Families <- ShFamilies
  ProgramsOf <- ShProgramsOf
INVARIANT GeneratedWellFormed
INVARIANT WitnessTypesAsDeclared
INVARIANT CompileCorrect
INVARIANT DebugNeutral
INVARIANT CodegenTotal
INVARIANT Emit
CHECK_DEADLOCK FALSE
