SPECIFICATION Spec
CONSTANTS
  Families <- DeepFamilies
  ProgramsOf <- DeepProgramsOf
INVARIANT GeneratedWellFormed
INVARIANT WitnessTypesAsDeclared
INVARIANT CompileCorrect
INVARIANT DebugNeutral
INVARIANT CodegenTotal
INVARIANT Emit
CHECK_DEADLOCK FALSE
