-------------------------- MODULE MC_ForWhileBroken --------------------------
(* Negative control: for_while_0 runs the iteration with counter bit 1 before *)
(* the one with bit 0.  TLC must report a violation of CompileCorrect.        *)
EXTENDS MC_ForWhile
ForWhile0Swapped(f) == Comp(Pair(Comp(Pair(OH, Pair(IH, BitT(TRUE))), f), IH),
                            Case(InjL(OH), Comp(Pair(OH, Pair(IH, BitT(FALSE))), f)))
=============================================================================
