SPECIFICATION Spec
CONSTANTS
  Families <- PFamilies
  ProgramsOf <- PProgramsOf
INVARIANT GeneratedWellFormed
INVARIANT WitnessTypesAsDeclared
INVARIANT CompileCorrect
INVARIANT DebugNeutral
INVARIANT CodegenTotal
INVARIANT SubstEquivalent
INVARIANT Emit
CHECK_DEADLOCK FALSE
