------------------------------ MODULE MC_Prune ------------------------------
(***************************************************************************)
(* C18: pruning for an environment never changes the verdict.              *)
(* Programs that read the transaction environment (lock-time / sequence    *)
(* jets), with witnesses on branches that are pruned for some environments *)
(* and with witnesses that are only partly inspected.  For every           *)
(* (environment, witness assignment): satisfy_with_env(.., Some(env)) must *)
(* return a program exactly when the unpruned program succeeds under env;  *)
(* the returned program keeps the CMR, decodes and succeeds under env.     *)
(* Model: PruneNeutral (Simplicity.tla PruneRun) and EnvCompileCorrect.    *)
(***************************************************************************)
EXTENDS ProgMC

T8 == TU(8)
T16 == TU(16)
T32 == TU(32)
B32(n) == BitsOfNat(n, 32)
U32(n) == VU(B32(n))
U16(n) == VU(BitsOfNat(n, 16))
U8(n) == VU(BitsOfNat(n, 8))

\* environments: (nLockTime, nSequence)
SeqFinal == OneBits(32)
SeqNonFinalDisabled == Rep(1, 31) \o <<0>>               \* 0xFFFFFFFE: not final, relative lock disabled
SeqBlocks(n) == BitsOfNat(n, 32)                          \* relative lock of n blocks
SeqTime(n) == [i \in 1..32 |-> IF i = 10 THEN 1 ELSE BitsOfNat(n, 32)[i]]   \* bit 22 set: n * 512 s
SeqDisabled(n) == <<1>> \o BitsOfNat(n, 31)
Envs == <<[lock |-> B32(0), seq |-> SeqFinal],
          [lock |-> B32(100), seq |-> SeqFinal],
          [lock |-> B32(100), seq |-> SeqNonFinalDisabled],
          [lock |-> B32(499999999), seq |-> SeqBlocks(10)],
          [lock |-> B32(500000000), seq |-> SeqBlocks(10)],
          [lock |-> B32(1700000000), seq |-> SeqTime(10)],
          [lock |-> B32(0), seq |-> SeqDisabled(7)],
          [lock |-> B32(101), seq |-> SeqBlocks(65535)]>>

Chk(j, e) == SExpr(JetE(j, <<e>>))
A(e) == SExpr(AssertE(e))

Bodies ==
  <<\* 1: absolute height lock from a witness
    [ss |-> <<Chk("check_lock_height", EWit("H"))>>, w |-> <<<<"H", T32>>>>,
     pts |-> {("H" :> U32(n)) : n \in {0, 100, 101, 499999999, 500000000}}],
    \* 2: absolute time lock
    [ss |-> <<Chk("check_lock_time", EWit("H"))>>, w |-> <<<<"H", T32>>>>,
     pts |-> {("H" :> U32(n)) : n \in {0, 500000000, 1700000000, 1700000001}}],
    \* 3: relative locks
    [ss |-> <<Chk("check_lock_distance", EWit("D"))>>, w |-> <<<<"D", T16>>>>,
     pts |-> {("D" :> U16(n)) : n \in {0, 7, 10, 11, 65535}}],
    [ss |-> <<Chk("check_lock_duration", EWit("D"))>>, w |-> <<<<"D", T16>>>>,
     pts |-> {("D" :> U16(n)) : n \in {0, 10, 11}}],
    \* 5: reading values
    [ss |-> <<A(JetE("eq_32", <<JetE("tx_lock_height", <<>>), EWit("H")>>))>>, w |-> <<<<"H", T32>>>>,
     pts |-> {("H" :> U32(n)) : n \in {0, 100, 101, 499999999}}],
    [ss |-> <<A(JetE("eq_32", <<JetE("lock_time", <<>>), EWit("H")>>))>>, w |-> <<<<"H", T32>>>>,
     pts |-> {("H" :> U32(n)) : n \in {0, 100, 500000000}}],
    [ss |-> <<A(JetE("eq_32", <<JetE("current_sequence", <<>>), EWit("H")>>))>>, w |-> <<<<"H", T32>>>>,
     pts |-> {("H" :> VU(SeqFinal)), ("H" :> VU(SeqBlocks(10)))}],
    [ss |-> <<A(JetE("eq_16", <<JetE("tx_lock_distance", <<>>), EWit("D")>>))>>, w |-> <<<<"D", T16>>>>,
     pts |-> {("D" :> U16(n)) : n \in {0, 10, 65535}}],
    \* 9: a branch that depends on the environment, each arm with its own witness (one is pruned away)
    [ss |-> <<SExpr(EMatch(JetE("tx_is_final", <<>>),
                           <<Arm(MTrue, AssertE(JetE("eq_8", <<EWit("A"), Dec(7)>>))),
                             Arm(MFalse, JetE("check_lock_distance", <<EWit("D")>>))>>))>>,
     w |-> <<<<"A", T8>>, <<"D", T16>>>>,
     pts |-> {("A" :> U8(a)) @@ ("D" :> U16(d)) : a \in {7, 8}, d \in {0, 10, 11}}],
    \* 10: branch on a witness; the untaken arm (with its jet) is pruned
    [ss |-> <<SExpr(EMatch(EWit("E"), <<Arm(MLeft("a", T8), AssertE(JetE("eq_8", <<V("a"), EWit("A")>>))),
                                       Arm(MRight("b", T16), JetE("check_lock_distance", <<V("b")>>))>>))>>,
     w |-> <<<<"E", TEither(T8, T16)>>, <<"A", T8>>>>,
     pts |-> {("E" :> e) @@ ("A" :> U8(5)) : e \in {VLeft(U8(5)), VLeft(U8(6)), VRight(U16(10)), VRight(U16(11))}}],
    \* 11: partly inspected witness before / after other bindings (values must stay aligned in the pruned program)
    [ss |-> <<SLet(PId("k"), T8, EWit("K")), SLet(PTup(<<PId("a"), PId("b")>>), TTup(<<T8, T8>>), EWit("X")),
              A(JetE("eq_8", <<V("a"), V("k")>>)), Chk("check_lock_height", EWit("H"))>>,
     w |-> <<<<"K", T8>>, <<"X", TTup(<<T8, T8>>)>>, <<"H", T32>>>>,
     pts |-> {("K" :> U8(k)) @@ ("X" :> VTup(<<U8(5), U8(9)>>)) @@ ("H" :> U32(h)) : k \in {5, 9}, h \in {0, 100}}],
    \* 12: never inspected witnesses of several shapes
    [ss |-> <<SLet(PIgn, TOpt(T16), EWit("O")), SLet(PId("u"), TTup(<<T8, TBool>>), EWit("P")),
              Chk("check_lock_time", EWit("H"))>>,
     w |-> <<<<"O", TOpt(T16)>>, <<"P", TTup(<<T8, TBool>>)>>, <<"H", T32>>>>,
     pts |-> {("O" :> o) @@ ("P" :> VTup(<<U8(200), VBool(TRUE)>>)) @@ ("H" :> U32(h)) :
                o \in {VNone, VSome(U16(513))}, h \in {0, 1700000000}}],
    \* 13: unwrap of an Option witness guarded by the environment
    [ss |-> <<SExpr(EMatch(JetE("tx_is_final", <<>>),
                           <<Arm(MFalse, Blk(<<SLet(PId("v"), T16, Call1(CUnwrap, EWit("O"))), Chk("check_lock_distance", V("v"))>>)),
                             Arm(MTrue, EUnit)>>))>>,
     w |-> <<<<"O", TOpt(T16)>>>>,
     pts |-> {("O" :> o) : o \in {VNone, VSome(U16(3)), VSome(U16(11))}}]>>

\* ---- witnesses of branches that are not executed may be left out of the witness map ---------------------------
\* (satisfy ignores missing names; with pruning the verdict must still be the one of the unpruned program)
\* two spending paths chosen by a witness, each with its own secret; the secret of the other path is omitted
PathBody ==
  [ss |-> <<SExpr(EMatch(EWit("PATH"),
                         <<Arm(MLeft("x", T8), AssertE(JetE("eq_8", <<V("x"), EWit("LSECRET")>>))),
                           Arm(MRight("h", T32), Blk(<<A(JetE("eq_16", <<EWit("RSECRET"), Dec(513)>>)),
                                                        Chk("check_lock_height", V("h"))>>))>>))>>,
   w |-> <<<<"PATH", TEither(T8, T32)>>, <<"LSECRET", T8>>, <<"RSECRET", T16>>>>,
   pts |-> <<[v |-> ("PATH" :> VLeft(U8(5))) @@ ("LSECRET" :> U8(5)) @@ ("RSECRET" :> U16(0)), omit |-> <<"RSECRET">>],
             [v |-> ("PATH" :> VLeft(U8(5))) @@ ("LSECRET" :> U8(6)) @@ ("RSECRET" :> U16(0)), omit |-> <<"RSECRET">>],
             [v |-> ("PATH" :> VRight(U32(100))) @@ ("LSECRET" :> U8(0)) @@ ("RSECRET" :> U16(513)), omit |-> <<"LSECRET">>],
             [v |-> ("PATH" :> VRight(U32(101))) @@ ("LSECRET" :> U8(0)) @@ ("RSECRET" :> U16(513)), omit |-> <<"LSECRET">>],
             [v |-> ("PATH" :> VRight(U32(100))) @@ ("LSECRET" :> U8(0)) @@ ("RSECRET" :> U16(514)), omit |-> <<"LSECRET">>],
             [v |-> ("PATH" :> VLeft(U8(5))) @@ ("LSECRET" :> U8(5)) @@ ("RSECRET" :> U16(513)), omit |-> <<>>]>>]

\* a loop-heavy branch and a cheap branch chosen by a witness (the cost of a program is no reason to refuse it)
LoopDefs == <<IFn("count", <<Param("acc", T8), Param("lim", T8), Param("i", TU(8))>>, <<TEither(T8, T8)>>,
                  BlkE(<<>>, EMatch(JetE("eq_8", <<V("acc"), V("lim")>>),
                                    <<Arm(MTrue, ELeft(V("acc"))),
                                      Arm(MFalse, BlkE(<<SLet(PTup(<<PIgn, PId("s")>>), TTup(<<TBool, T8>>),
                                                               JetE("add_8", <<V("acc"), Dec(1)>>))>>, ERight(V("s"))))>>)))>>
LoopBody ==
  [ss |-> <<SExpr(EMatch(EWit("PATH"),
                         <<Arm(MLeft("lim", T8), Blk(<<SLet(PId("r"), TEither(T8, T8), ECall(CForWhile("count"), <<Dec(0), V("lim")>>)),
                                                       A(JetE("eq_8", <<Call1(CUnwrapLeft(T8), V("r")), V("lim")>>))>>)),
                           Arm(MRight("h", T32), Blk(<<Chk("check_lock_height", V("h"))>>))>>))>>,
   w |-> <<<<"PATH", TEither(T8, T32)>>>>,
   pts |-> {("PATH" :> VLeft(U8(3))), ("PATH" :> VLeft(U8(15))), ("PATH" :> VLeft(U8(40))), ("PATH" :> VRight(U32(100))), ("PATH" :> VRight(U32(101)))}]

\* a nested Either whose inner Right payload is never read: the witness node is as WIDE as the declared type but laid out
\* differently; the value must be trimmed, or the pruned program fails under its own environment
TNE == TEither(TEither(T8, T16), T32)
NestBody ==
  [ss |-> <<SExpr(EMatch(EWit("NE"),
                         <<Arm(MLeft("inner", TEither(T8, T16)),
                               EMatch(V("inner"), <<Arm(MLeft("x", T8), AssertE(JetE("eq_8", <<V("x"), Dec(5)>>))),
                                                    Arm(MRight("y", T16), EUnit)>>)),
                           Arm(MRight("z", T32), Blk(<<Chk("check_lock_height", V("z"))>>))>>))>>,
   w |-> <<<<"NE", TNE>>>>,
   pts |-> {("NE" :> VLeft(VRight(U16(5)))), ("NE" :> VLeft(VRight(U16(256)))), ("NE" :> VLeft(VLeft(U8(5)))),
            ("NE" :> VLeft(VLeft(U8(6)))), ("NE" :> VRight(U32(100))), ("NE" :> VRight(U32(101)))}]

PrFamilies == {[b |-> i] : i \in 1..Len(Bodies)} \cup {[b |-> 0], [b |-> -1], [b |-> -2]}
PrProgramsOf(f) ==
  IF f.b = -2
  THEN {[items |-> <<Main(Blk(NestBody.ss))>>, wdecls |-> NestBody.w, args |-> EmptyFn, space |-> SetToSeq(NestBody.pts),
         envs |-> Envs, prune |-> TRUE, tag |-> "prune"]}
  ELSE IF f.b = -1
  THEN {[items |-> LoopDefs \o <<Main(Blk(LoopBody.ss))>>, wdecls |-> LoopBody.w, args |-> EmptyFn, space |-> SetToSeq(LoopBody.pts),
         envs |-> Envs, prune |-> TRUE, tag |-> "prune"]}
  ELSE IF f.b = 0
  THEN {[items |-> <<Main(Blk(PathBody.ss))>>, wdecls |-> PathBody.w, args |-> EmptyFn,
         space |-> [i \in 1..Len(PathBody.pts) |-> PathBody.pts[i].v],
         omit |-> [i \in 1..Len(PathBody.pts) |-> PathBody.pts[i].omit],
         envs |-> Envs, prune |-> TRUE, tag |-> "prune"]}
  ELSE
  LET bd == Bodies[f.b] IN
  {[items |-> <<Main(Blk(bd.ss))>>, wdecls |-> bd.w, args |-> EmptyFn, space |-> SetToSeq(bd.pts),
    envs |-> Envs, prune |-> TRUE, tag |-> "prune"]}
=============================================================================
