------------------------------ MODULE MC_Shared ------------------------------
(***************************************************************************)
(* C02 family "shared": several witnesses of ONE declared type that are    *)
(* consumed to different degrees - never inspected, partly inspected, fully *)
(* inspected - observed at witness points where their values are equal     *)
(* (bit-identical) and where they differ.  The witness nodes of such a      *)
(* program are inferred at different types although their declared type and *)
(* their values agree, so the value delivered to each node must be trimmed  *)
(* per node: the satisfied program has to keep the committed CMR, its       *)
(* encoding has to decode and run (C02), and the verdict is the one the     *)
(* source semantics prescribes (C01).                                       *)
(***************************************************************************)
EXTENDS ProgMC

T8 == TU(8)
T16 == TU(16)
TP == TTup(<<T8, T8>>)
TO == TOpt(T16)
TE == TEither(T8, T16)
TN == TTup(<<T8, TTup(<<T16, T8>>)>>)            \* a tuple nested BEHIND an earlier component
U8(n) == VU(BitsOfNat(n, 8))
U16(n) == VU(BitsOfNat(n, 16))
A(e) == SExpr(AssertE(e))
Eq8(a, b) == A(JetE("eq_8", <<a, b>>))
Eq16(a, b) == A(JetE("eq_16", <<a, b>>))

\* ways to consume witness w of type ty; tag u = unused, p = partly, f = fully
Uses(ty, w) ==
  CASE ty = TP -> <<[d |-> "u", ss |-> <<SLet(PIgn, TP, EWit(w))>>],
                    [d |-> "u", ss |-> <<SLet(PId("unused"), TP, EWit(w))>>],
                    [d |-> "p", ss |-> <<SLet(PTup(<<PId("p"), PIgn>>), TP, EWit(w)), Eq8(V("p"), Dec(5))>>],
                    [d |-> "p", ss |-> <<SLet(PTup(<<PIgn, PId("q")>>), TP, EWit(w)), Eq8(V("q"), Dec(9))>>],
                    [d |-> "f", ss |-> <<SLet(PTup(<<PId("p"), PId("q")>>), TP, EWit(w)), Eq8(V("p"), Dec(5)), Eq8(V("q"), Dec(9))>>]>>
    [] ty = TO -> <<[d |-> "u", ss |-> <<SLet(PIgn, TO, EWit(w))>>],
                    [d |-> "p", ss |-> <<SExpr(EMatch(EWit(w), <<Arm(MNone, EUnit), Arm(MSome("v", T16), EUnit)>>))>>],
                    [d |-> "p", ss |-> <<A(Call1(CIsNone(T16), EWit(w)))>>],
                    [d |-> "f", ss |-> <<SLet(PId("v"), T16, Call1(CUnwrap, EWit(w))), Eq16(V("v"), Dec(513))>>]>>
    [] ty = TE -> <<[d |-> "u", ss |-> <<SLet(PId("unused"), TE, EWit(w))>>],
                    [d |-> "p", ss |-> <<SExpr(EMatch(EWit(w), <<Arm(MLeft("l", T8), EUnit), Arm(MRight("r", T16), EUnit)>>))>>],
                    [d |-> "p", ss |-> <<SExpr(EMatch(EWit(w), <<Arm(MLeft("l", T8), AssertE(JetE("eq_8", <<V("l"), Dec(5)>>))),
                                                                 Arm(MRight("r", T16), EUnit)>>))>>],
                    [d |-> "f", ss |-> <<SExpr(EMatch(EWit(w), <<Arm(MLeft("l", T8), AssertE(JetE("eq_8", <<V("l"), Dec(5)>>))),
                                                                 Arm(MRight("r", T16), AssertE(JetE("eq_16", <<V("r"), Dec(513)>>)))>>))>>]>>

\* an Either whose LEFT side is a pair that may be inspected partly while the right side is as wide and fully used:
\* the node type keeps the width of the declared type although half of the left payload is never read
TE2 == TEither(TP, T16)
UsesE2(w) ==
  <<[d |-> "u", ss |-> <<SLet(PId("unused"), TE2, EWit(w))>>],
    [d |-> "p", ss |-> <<SExpr(EMatch(EWit(w), <<Arm(MLeft("l", TP), Blk(<<SLet(PTup(<<PId("p"), PIgn>>), TP, V("l")), Eq8(V("p"), Dec(5))>>)),
                                                 Arm(MRight("r", T16), AssertE(JetE("eq_16", <<V("r"), Dec(513)>>)))>>))>>],
    [d |-> "p", ss |-> <<SExpr(EMatch(EWit(w), <<Arm(MLeft("l", TP), Blk(<<SLet(PTup(<<PIgn, PId("q")>>), TP, V("l")), Eq8(V("q"), Dec(9))>>)),
                                                 Arm(MRight("r", T16), AssertE(JetE("eq_16", <<V("r"), Dec(513)>>)))>>))>>],
    [d |-> "f", ss |-> <<SExpr(EMatch(EWit(w), <<Arm(MLeft("l", TP), Blk(<<SLet(PTup(<<PId("p"), PId("q")>>), TP, V("l")),
                                                                          Eq8(V("p"), Dec(5)), Eq8(V("q"), Dec(9))>>)),
                                                 Arm(MRight("r", T16), AssertE(JetE("eq_16", <<V("r"), Dec(513)>>)))>>))>>]>>

\* an Either (sides of different width) as ELEMENT of an array witness
TAE == TArr(TE, 2)
UsesAE(w) ==
  <<[d |-> "u", ss |-> <<SLet(PId("unused"), TAE, EWit(w))>>],
    [d |-> "p", ss |-> <<SLet(PArr(<<PId("h"), PIgn>>), TAE, EWit(w)),
                         SExpr(EMatch(V("h"), <<Arm(MLeft("l", T8), AssertE(JetE("eq_8", <<V("l"), Dec(5)>>))),
                                                Arm(MRight("r", T16), EUnit)>>))>>],
    [d |-> "f", ss |-> <<SLet(PArr(<<PId("h"), PId("k")>>), TAE, EWit(w)),
                         SExpr(EMatch(V("h"), <<Arm(MLeft("l", T8), AssertE(JetE("eq_8", <<V("l"), Dec(5)>>))),
                                                Arm(MRight("r", T16), AssertE(JetE("eq_16", <<V("r"), Dec(513)>>)))>>)),
                         SExpr(EMatch(V("k"), <<Arm(MLeft("l", T8), AssertE(JetE("eq_8", <<V("l"), Dec(5)>>))),
                                                Arm(MRight("r", T16), AssertE(JetE("eq_16", <<V("r"), Dec(513)>>)))>>))>>]>>

UsesN(w) ==
  <<[d |-> "u", ss |-> <<SLet(PId("unused"), TN, EWit(w))>>],
    [d |-> "p", ss |-> <<SLet(PTup(<<PId("p"), PIgn>>), TN, EWit(w)), Eq8(V("p"), Dec(5))>>],
    [d |-> "p", ss |-> <<SLet(PTup(<<PIgn, PTup(<<PId("m"), PIgn>>)>>), TN, EWit(w)), Eq16(V("m"), Dec(513))>>],
    [d |-> "f", ss |-> <<SLet(PTup(<<PId("p"), PTup(<<PId("m"), PId("q")>>)>>), TN, EWit(w)),
                         Eq8(V("p"), Dec(5)), Eq16(V("m"), Dec(513)), Eq8(V("q"), Dec(9))>>]>>

\* a tuple of four components (the balanced layout ((a, b), (c, d)) differs from a right-nested chain)
T4 == TTup(<<T8, T16, T8, T16>>)
Uses4(w) ==
  <<[d |-> "u", ss |-> <<SLet(PId("unused"), T4, EWit(w))>>],
    [d |-> "p", ss |-> <<SLet(PTup(<<PId("p"), PIgn, PIgn, PIgn>>), T4, EWit(w)), Eq8(V("p"), Dec(5))>>],
    [d |-> "p", ss |-> <<SLet(PTup(<<PIgn, PIgn, PIgn, PId("m")>>), T4, EWit(w)), Eq16(V("m"), Dec(513))>>],
    [d |-> "p", ss |-> <<SLet(PTup(<<PIgn, PId("m"), PId("q"), PIgn>>), T4, EWit(w)), Eq16(V("m"), Dec(513)), Eq8(V("q"), Dec(9))>>],
    [d |-> "f", ss |-> <<SLet(PTup(<<PId("p"), PId("m"), PId("q"), PId("n")>>), T4, EWit(w)),
                         Eq8(V("p"), Dec(5)), Eq16(V("m"), Dec(513)), Eq8(V("q"), Dec(9)), Eq16(V("n"), Dec(513))>>]>>

ValsOf(ty) ==
  CASE ty = TAE -> <<VArr(<<VLeft(U8(5)), VRight(U16(513))>>), VArr(<<VRight(U16(513)), VLeft(U8(5))>>), VArr(<<VLeft(U8(6)), VLeft(U8(5))>>)>>
    [] ty = TE2 -> <<VLeft(VTup(<<U8(5), U8(9)>>)), VLeft(VTup(<<U8(9), U8(5)>>)), VRight(U16(513)), VRight(U16(5))>>
    [] ty = T4 -> <<VTup(<<U8(5), U16(513), U8(9), U16(513)>>), VTup(<<U8(9), U16(513), U8(5), U16(2)>>)>>
    [] ty = TN -> <<VTup(<<U8(5), VTup(<<U16(513), U8(9)>>)>>), VTup(<<U8(9), VTup(<<U16(513), U8(5)>>)>>),
                    VTup(<<U8(5), VTup(<<U16(2309), U8(9)>>)>>)>>
    [] ty = TP -> <<VTup(<<U8(5), U8(9)>>), VTup(<<U8(5), U8(8)>>), VTup(<<U8(0), U8(9)>>)>>
    [] ty = TO -> <<VSome(U16(513)), VNone, VSome(U16(2))>>
    [] ty = TE -> <<VLeft(U8(5)), VRight(U16(513)), VLeft(U8(6)), VRight(U16(7))>>

Names == <<"A", "B", "C">>
ShFamilies == {[ty |-> t, n |-> k] : t \in {TP, TO, TE, TN}, k \in {2, 3}} \cup {[ty |-> T4, n |-> 2], [ty |-> TE2, n |-> 2], [ty |-> TAE, n |-> 2]}

\* all sequences of k use indices
RECURSIVE IdxSeqs(_, _)
IdxSeqs(k, m) == IF k = 0 THEN {<<>>} ELSE {<<i>> \o s : i \in 1..m, s \in IdxSeqs(k - 1, m)}

ShProgramsOf(f) ==
  LET us(w) == IF f.ty = TN THEN UsesN(w) ELSE IF f.ty = T4 THEN Uses4(w) ELSE IF f.ty = TE2 THEN UsesE2(w) ELSE IF f.ty = TAE THEN UsesAE(w) ELSE Uses(f.ty, w)
      m == Len(us("A"))
      vs == ValsOf(f.ty)
      pts == {[i \in 1..f.n |-> vs[c[i]]] : c \in IdxSeqs(f.n, Len(vs))}
  IN {[items |-> <<Main(Blk(Concat([i \in 1..f.n |-> <<SExpr(Blk(us(Names[i])[c[i]].ss))>>])))>>,
       wdecls |-> [i \in 1..f.n |-> <<Names[i], f.ty>>], args |-> EmptyFn,
       space |-> SetToSeq({[nm \in {Names[i] : i \in 1..f.n} |-> p[CHOOSE i \in 1..f.n : Names[i] = nm]] : p \in pts})]
       : c \in {c2 \in IdxSeqs(f.n, m) : \E i, j \in 1..f.n : us("A")[c2[i]].d # us("A")[c2[j]].d}}
=============================================================================
