------------------------------- MODULE ProgMC -------------------------------
(***************************************************************************)
(* Generic model for program families.  A family module supplies           *)
(*   Families        - a set of family descriptors (the initial states)    *)
(*   ProgramsOf(f)   - the programs of a descriptor; each program is       *)
(*       [items, wdecls (sequence of <<WITNESS, type>>), args (name ->     *)
(*        [ty, v]), ...]                                                   *)
(* and this module checks, for every program and every witness assignment, *)
(*   - well-formedness under the static rules (Static.tla);                *)
(*   - book semantics (Dynamic.tla) = Simplicity semantics of the          *)
(*     translation (Codegen.tla, Simplicity.tla), debug symbols off / on;  *)
(*   - totality of code generation;                                        *)
(* and emits each behaviour (text + expected verdict vector) for replay.   *)
(***************************************************************************)
EXTENDS Family, Json, IOUtils

CONSTANTS Families, ProgramsOf(_)

Thorough == IOEnv.VERIF_TIER = "thorough"
Seed == atoi(IOEnv.VERIF_SEED)

VARIABLES phase, fam, prog, res
vars == <<phase, fam, prog, res>>

\* argument values by name (args: name -> [ty, v])
ArgVals(p) == [n \in DOMAIN p.args |-> p.args[n].v]
WCap(p) == IF "wcap" \in DOMAIN p THEN p.wcap ELSE 2
\* explicit witness points (sequence of name -> value functions) or the bounded product space
SpaceOf(p) == IF "space" \in DOMAIN p THEN p.space ELSE SetToSeq(WitSpace(p.wdecls, WCap(p)))

\* ---- API lifecycle rules (C05, C12) --------------------------------------------------------
\* A map is a sequence of entries [n |-> name, ty |-> type of the supplied value, v |-> value].
\* satisfy: error exactly when a supplied name that the program declares has another type
\* (nominal comparison); undeclared names are ignored; missing names are not an error.
SatisfyOK(wits, entries) ==
  \A i \in 1..Len(entries) : entries[i].n \in DOMAIN wits => entries[i].ty = wits[entries[i].n]
\* instantiate: error exactly when a reported parameter has no argument or one of another type
InstantiateOK(params, entries) ==
  \A n \in DOMAIN params : \E i \in 1..Len(entries) : entries[i].n = n /\ entries[i].ty = params[n]
Complete(wits, entries) == \A n \in DOMAIN wits : \E i \in 1..Len(entries) : entries[i].n = n
AsFn(entries) == Extend(EmptyFn, [i \in 1..Len(entries) |-> <<entries[i].n, entries[i].v>>])
\* expectation for one witness map: "err", or "ok" with the verdict when every declared name is supplied
MapExpect(m, an, av, entries) ==
  IF ~SatisfyOK(an.wits, entries) THEN [entries |-> entries, expect |-> "err", verdict |-> "none"]
  ELSE IF Complete(an.wits, entries)
       THEN [entries |-> entries, expect |-> "ok", verdict |-> IF RunSrcM(m, AsFn(entries), av) THEN "ok" ELSE "fail"]
       ELSE [entries |-> entries, expect |-> "ok", verdict |-> "none"]
ArgExpect(an, entries) == [entries |-> entries, expect |-> IF InstantiateOK(an.params, entries) THEN "ok" ELSE "err"]

Check(p) ==
  LET an == Analyze(p.items)
      wf == ~IsErr(an)
  IN IF ~wf THEN [wf |-> FALSE, points |-> <<>>, vsrc |-> <<>>, vsimp |-> <<>>, vdbg |-> <<>>, cannot |-> FALSE,
                  wtypesOK |-> FALSE, params |-> <<>>, maps |-> <<>>, argmaps |-> <<>>, valt |-> <<>>,
                  venv |-> <<>>, vsenv |-> <<>>, prune |-> <<>>, sites |-> <<>>]
     ELSE \* quantifier-bound names are evaluated once (a LET would be re-evaluated at every use inside
          \* the function constructors below - measured: 100 x slower)
          CHOOSE r \in {[wf |-> TRUE,
                         points |-> [i \in 1..Len(space) |-> [j \in 1..Len(p.wdecls) |-> space[i][p.wdecls[j][1]]]],
                         vsrc |-> [i \in 1..Len(space) |-> RunSrcM(m, space[i], av)],
                         vsimp |-> [i \in 1..Len(space) |-> RunSimp(t0, space[i], wtypes)],
                         vdbg |-> [i \in 1..Len(space) |-> RunSimp(t1, space[i], wtypes)],
                         cannot |-> HasCannot(t0),
                         wtypesOK |-> \A n \in DOMAIN an.wits : n \in DOMAIN wtypes /\ an.wits[n] = wtypes[n],
                         params |-> [n \in DOMAIN an.params |-> an.params[n]],
                         valt |-> IF "alt" \in DOMAIN p
                                  THEN [i \in 1..Len(space) |-> RunSrc(p.alt, space[i], av)] ELSE <<>>,
                         \* tracked call sites that are part of the compiled program (C14), with sample input values
                         sites |-> LET rs == ReachableSites(m, an) IN
                                   [i \in 1..Len(rs) |->
                                      [kind |-> rs[i].kind, text |-> rs[i].text, ty |-> rs[i].ty,
                                       samples |-> IF rs[i].kind \in {"dbg", "unwrap_left", "unwrap_right"}
                                                   THEN LET vs == SetToSeq(Vals(rs[i].ty, 2, 4))
                                                            k == Min2(6, Len(vs))
                                                        IN [j \in 1..k |-> vs[1 + (((j - 1) * Len(vs)) \div k)]]
                                                   ELSE <<>>]],
                         \* runs under transaction environments (C18): source verdict, Simplicity verdict, pruning
                         venv |-> IF "envs" \in DOMAIN p
                                  THEN [e \in 1..Len(p.envs) |-> [i \in 1..Len(space) |-> RunSrcEnv(m, space[i], av, p.envs[e])]] ELSE <<>>,
                         vsenv |-> IF "envs" \in DOMAIN p
                                   THEN [e \in 1..Len(p.envs) |-> [i \in 1..Len(space) |-> RunSimpEnv(t0, space[i], wtypes, p.envs[e])]] ELSE <<>>,
                         prune |-> IF "envs" \in DOMAIN p
                                   THEN [e \in 1..Len(p.envs) |-> [i \in 1..Len(space) |->
                                           IF RunSimpEnv(t0, space[i], wtypes, p.envs[e])
                                           THEN PruneCheck(t0, space[i], wtypes, p.envs[e])
                                           ELSE [prunedOK |-> TRUE, skelSame |-> TRUE]]] ELSE <<>>,
                         maps |-> IF "maps" \in DOMAIN p THEN [i \in 1..Len(p.maps) |-> MapExpect(m, an, av, p.maps[i])] ELSE <<>>,
                         argmaps |-> IF "argmaps" \in DOMAIN p THEN [i \in 1..Len(p.argmaps) |-> ArgExpect(an, p.argmaps[i])] ELSE <<>>] :
                            wtypes \in {Extend(EmptyFn, p.wdecls)},
                            space \in {SpaceOf(p)},
                            av \in {ArgVals(p)},
                            m \in {MainCtx(p.items, G0)},
                            t0 \in {Compile(p.items, ArgVals(p), FALSE)},
                            t1 \in {Compile(p.items, ArgVals(p), TRUE)}} : TRUE

Init == phase = "fam" /\ fam \in Families /\ prog = <<>> /\ res = <<>>
Next == /\ phase = "fam"
        /\ \E p \in ProgramsOf(fam) : prog' = p /\ res' = Check(p)
        /\ phase' = "prog" /\ fam' = fam
Spec == Init /\ [][Next]_vars

\* ---- properties ---------------------------------------------------------------------------
\* the generator only produces well-formed programs (a failure is a defect of generator or Static.tla)
GeneratedWellFormed == phase = "prog" => res.wf
\* the witness types the analysis derives are the declared ones
WitnessTypesAsDeclared == phase = "prog" => res.wtypesOK
\* C01 on the model: translation scheme + Simplicity semantics = book semantics
CompileCorrect == phase = "prog" => res.vsimp = res.vsrc
\* C14 on the model: the debug wrapper is behaviour neutral
DebugNeutral == phase = "prog" => res.vdbg = res.vsrc
\* C03 on the model: code generation is total on well-formed programs
CodegenTotal == phase = "prog" => ~res.cannot
\* C12 on the model: the program with its arguments behaves like the program with the arguments
\* written literally in place of param::NAME (p.alt), on every witness assignment
SubstEquivalent == phase = "prog" => (res.valt = <<>> \/ res.valt = res.vsrc)
\* C01 under transaction environments; C18 on the model: pruning a successful run keeps the abstract
\* CMR and the pruned program still succeeds under the same environment
EnvCompileCorrect == phase = "prog" => res.vsenv = res.venv
PruneNeutral == phase = "prog" =>
  \A e \in 1..Len(res.prune) : \A i \in 1..Len(res.prune[e]) : res.prune[e][i].prunedOK /\ res.prune[e][i].skelSame

ArgList(p) == LET ns == SetToSeq(DOMAIN p.args) IN [i \in 1..Len(ns) |-> <<ns[i], p.args[ns[i]]>>]
ParamList(r) == LET ns == SetToSeq(DOMAIN r.params) IN [i \in 1..Len(ns) |-> <<ns[i], r.params[ns[i]]>>]
Emit == phase = "prog" =>
  PrintT(<<"REPLAY", ToJson([kind |-> "prog", tokens |-> TokProg(prog.items), accept |-> res.wf,
                             wnames |-> [j \in 1..Len(prog.wdecls) |-> prog.wdecls[j][1]],
                             wtypes |-> [j \in 1..Len(prog.wdecls) |-> prog.wdecls[j][2]],
                             \* xpoints / xverdicts: expectations stated by a closed-form LEMMA of the family (validated by the
                             \* model at the sizes TLC can evaluate) for points that are too expensive to evaluate inside TLC;
                             \* they are replayed against the implementation like every other point
                             points |-> res.points \o (IF "xpoints" \in DOMAIN prog
                                                       THEN [i \in 1..Len(prog.xpoints) |->
                                                               [j \in 1..Len(prog.wdecls) |-> prog.xpoints[i][prog.wdecls[j][1]]]]
                                                       ELSE <<>>),
                             verdicts |-> res.vsrc \o (IF "xverdicts" \in DOMAIN prog THEN prog.xverdicts ELSE <<>>),
                             params |-> ParamList(res),
                             args |-> ArgList(prog),
                             maps |-> res.maps, argmaps |-> res.argmaps,
                             envs |-> IF "envs" \in DOMAIN prog THEN prog.envs ELSE <<>>, verdicts_env |-> res.venv,
                             prune |-> IF "prune" \in DOMAIN prog THEN prog.prune ELSE FALSE,
                             \* omit[i]: witness names that are NOT supplied at point i (their value cannot matter: the family
                             \* only omits witnesses of branches that are not executed at that point)
                             omit |-> IF "omit" \in DOMAIN prog THEN prog.omit ELSE <<>>,
                             sites |-> res.sites,
                             alt |-> IF "alt" \in DOMAIN prog THEN TokProg(prog.alt) ELSE <<>>,
                             tag |-> IF "tag" \in DOMAIN prog THEN prog.tag ELSE ""])>>)
=============================================================================
