------------------------------- MODULE ProgMC -------------------------------
(***************************************************************************)
(* Generic model for program families.  A family module supplies           *)
(*   Families        - a set of family descriptors (the initial states)    *)
(*   ProgramsOf(f)   - the programs of a descriptor; each program is       *)
(*       [items, wdecls (sequence of <<WITNESS, type>>), args (name ->     *)
(*        [ty, v]), ...]                                                   *)
(* and this module checks, for every program and every witness assignment, *)
(*   - well-formedness under the static rules (Static.tla);                *)
(*   - book semantics (Dynamic.tla) = Simplicity semantics of the          *)
(*     translation (Codegen.tla, Simplicity.tla), debug symbols off / on;  *)
(*   - totality of code generation;                                        *)
(* and emits each behaviour (text + expected verdict vector) for replay.   *)
(***************************************************************************)
EXTENDS Family, Json, IOUtils

CONSTANTS Families, ProgramsOf(_)

Thorough == IOEnv.VERIF_TIER = "thorough"
Seed == atoi(IOEnv.VERIF_SEED)

VARIABLES phase, fam, prog, res
vars == <<phase, fam, prog, res>>

\* argument values by name (args: name -> [ty, v])
ArgVals(p) == [n \in DOMAIN p.args |-> p.args[n].v]
WCap(p) == IF "wcap" \in DOMAIN p THEN p.wcap ELSE 2
\* explicit witness points (sequence of name -> value functions) or the bounded product space
SpaceOf(p) == IF "space" \in DOMAIN p THEN p.space ELSE SetToSeq(WitSpace(p.wdecls, WCap(p)))

Check(p) ==
  LET an == Analyze(p.items)
      wf == ~IsErr(an)
  IN IF ~wf THEN [wf |-> FALSE, points |-> <<>>, vsrc |-> <<>>, vsimp |-> <<>>, vdbg |-> <<>>, cannot |-> FALSE,
                  wtypesOK |-> FALSE, params |-> <<>>]
     ELSE \* quantifier-bound names are evaluated once (a LET would be re-evaluated at every use inside
          \* the function constructors below - measured: 100 x slower)
          CHOOSE r \in {[wf |-> TRUE,
                         points |-> [i \in 1..Len(space) |-> [j \in 1..Len(p.wdecls) |-> space[i][p.wdecls[j][1]]]],
                         vsrc |-> [i \in 1..Len(space) |-> RunSrcM(m, space[i], av)],
                         vsimp |-> [i \in 1..Len(space) |-> RunSimp(t0, space[i], wtypes)],
                         vdbg |-> [i \in 1..Len(space) |-> RunSimp(t1, space[i], wtypes)],
                         cannot |-> HasCannot(t0),
                         wtypesOK |-> \A n \in DOMAIN an.wits : n \in DOMAIN wtypes /\ an.wits[n] = wtypes[n],
                         params |-> [n \in DOMAIN an.params |-> an.params[n]]] :
                            wtypes \in {Extend(EmptyFn, p.wdecls)},
                            space \in {SpaceOf(p)},
                            av \in {ArgVals(p)},
                            m \in {MainCtx(p.items, G0)},
                            t0 \in {Compile(p.items, ArgVals(p), FALSE)},
                            t1 \in {Compile(p.items, ArgVals(p), TRUE)}} : TRUE

Init == phase = "fam" /\ fam \in Families /\ prog = <<>> /\ res = <<>>
Next == /\ phase = "fam"
        /\ \E p \in ProgramsOf(fam) : prog' = p /\ res' = Check(p)
        /\ phase' = "prog" /\ fam' = fam
Spec == Init /\ [][Next]_vars

\* ---- properties ---------------------------------------------------------------------------
\* the generator only produces well-formed programs (a failure is a defect of generator or Static.tla)
GeneratedWellFormed == phase = "prog" => res.wf
\* the witness types the analysis derives are the declared ones
WitnessTypesAsDeclared == phase = "prog" => res.wtypesOK
\* C01 on the model: translation scheme + Simplicity semantics = book semantics
CompileCorrect == phase = "prog" => res.vsimp = res.vsrc
\* C14 on the model: the debug wrapper is behaviour neutral
DebugNeutral == phase = "prog" => res.vdbg = res.vsrc
\* C03 on the model: code generation is total on well-formed programs
CodegenTotal == phase = "prog" => ~res.cannot

ArgList(p) == LET ns == SetToSeq(DOMAIN p.args) IN [i \in 1..Len(ns) |-> <<ns[i], p.args[ns[i]]>>]
ParamList(r) == LET ns == SetToSeq(DOMAIN r.params) IN [i \in 1..Len(ns) |-> <<ns[i], r.params[ns[i]]>>]
Emit == phase = "prog" =>
  PrintT(<<"REPLAY", ToJson([kind |-> "prog", tokens |-> TokProg(prog.items), accept |-> res.wf,
                             wnames |-> [j \in 1..Len(prog.wdecls) |-> prog.wdecls[j][1]],
                             wtypes |-> [j \in 1..Len(prog.wdecls) |-> prog.wdecls[j][2]],
                             points |-> res.points, verdicts |-> res.vsrc,
                             params |-> ParamList(res),
                             args |-> ArgList(prog),
                             tag |-> IF "tag" \in DOMAIN prog THEN prog.tag ELSE ""])>>)
=============================================================================
