---------------------------- MODULE MC_FoldBroken ----------------------------
(* Negative control: the doubling step of list_fold folds the SECOND half of  *)
(* a block before the first.  TLC must report a violation of CompileCorrect.  *)
EXTENDS MC_Fold
NextFArraySwapped(fa) == Comp(Pair(OOH, Comp(Pair(OIH, IH), fa)), fa)
=============================================================================
