------------------------------- MODULE Codegen ------------------------------
(***************************************************************************)
(* Implementation-shaped layer: the translation of Simfony to Simplicity   *)
(* as src/compile.rs performs it (doc/translation.md, doc/environment.md). *)
(*                                                                         *)
(* The code-generation scope is a stack of frames, each a sequence of      *)
(* source patterns; it denotes the shape of the Simplicity input value     *)
(* ("input pattern", newest binding leftmost).  A variable is translated   *)
(* to the take/drop path of its FIRST pre-order occurrence in the input    *)
(* pattern.                                                                *)
(*                                                                         *)
(*   Cmp(e, ty, sc, C)  C = [fns, al, args, dbg]                           *)
(***************************************************************************)
EXTENDS Dynamic, Simplicity

\* ---- base patterns --------------------------------------------------------------
BId(x) == [k |-> "pid", x |-> x]
BIgn == [k |-> "pign"]
BProd(a, b) == [k |-> "pprod", a |-> a, b |-> b]

RECURSIVE ToBase(_)
\* BasePattern::from(&Pattern): tuples and arrays become balanced products
ToBase(p) ==
  CASE p.k = "id" -> BId(p.x)
    [] p.k = "ign" -> BIgn
    [] p.k \in {"ptup", "parr"} -> BalFold([i \in 1..Len(p.es) |-> ToBase(p.es[i])], "pat")

\* ---- the code-generation scope (src/compile.rs Scope) -------------------------------
ScopeNew == <<<<PIgn>>>>                      \* Scope::new: one frame holding `_` (the unit input of main)
ScopeChild(p) == <<<<p>>>>                    \* Scope::child: function body sees only its parameters
ScopePush(sc) == Append(sc, <<>>)
ScopePop(sc) == Front(sc)
ScopeInsert(sc, p) == [sc EXCEPT ![Len(sc)] = Append(@, p)]

RECURSIVE FoldPats(_, _)
FoldPats(acc, ps) == IF ps = <<>> THEN acc ELSE FoldPats([k |-> "ptup", es |-> <<Head(ps), acc>>], Tail(ps))
\* get_input_pattern: all patterns, oldest innermost-right, newest leftmost
InputPattern(sc) == LET flat == Concat(sc) IN FoldPats(Head(flat), Tail(flat))

NF == <<2>>
RECURSIVE Path(_, _)
\* BasePattern::get: first pre-order occurrence; 0 = left (take), 1 = right (drop)
Path(bp, x) ==
  CASE bp.k = "pid" -> IF bp.x = x THEN <<>> ELSE NF
    [] bp.k = "pign" -> NF
    [] bp.k = "pprod" -> LET l == Path(bp.a, x) IN
                         IF l # NF THEN <<0>> \o l
                         ELSE LET r == Path(bp.b, x) IN IF r # NF THEN <<1>> \o r ELSE NF

ScopeGet(sc, x) == Path(ToBase(InputPattern(sc)), x)

RECURSIVE TermOfPath(_)
TermOfPath(path) == IF path = <<>> THEN Iden
                    ELSE IF Head(path) = 0 THEN Take(TermOfPath(Tail(path))) ELSE Drop(TermOfPath(Tail(path)))

\* ---- builders ---------------------------------------------------------------------
RECURSIVE ListTerm(_, _)
\* list literal: Partition::fold with blocks injl(unit) / injr(balanced pair tree)
ListTerm(cs, b) ==
  IF b = 2 THEN (IF cs = <<>> THEN InjL(Unit) ELSE InjR(cs[1]))
  ELSE LET h == b \div 2 IN
       IF Len(cs) >= h THEN Pair(InjR(BalFold(SubSeq(cs, 1, h), "term")), ListTerm(SubSeq(cs, h + 1, Len(cs)), h))
       ELSE Pair(InjL(Unit), ListTerm(cs, h))

\* list_fold (compile.rs 440-497)
NextFArray(fa) == Comp(Pair(OIH, Comp(Pair(OOH, IH), fa)), fa)
NextFFold(fa, ff) == Comp(Pair(OOH, Pair(OIH, IH)),
                          Case(Drop(ff), Comp(Pair(IOH, Comp(Pair(OH, IIH), fa)), ff)))
RECURSIVE FoldLoopT(_, _, _, _)
FoldLoopT(fa, ff, i, bound) ==
  IF i < bound THEN LET fa2 == NextFArray(fa) IN FoldLoopT(fa2, NextFFold(fa2, ff), 2 * i, bound) ELSE ff
ListFoldT(bound, f) == FoldLoopT(f, Case(IH, f), 2, bound)

\* for_while (compile.rs 512-610)
ForWhile0(f) == Comp(Pair(Comp(Pair(OH, Pair(IH, BitT(FALSE))), f), IH),
                     Case(InjL(OH), Comp(Pair(OH, Pair(IH, BitT(TRUE))), f)))
AdaptF(f) == Comp(Pair(OH, Pair(Drop(Take(Take(Iden))), Pair(Drop(Take(Drop(Iden))), IIH))), f)
RECURSIVE FWStackLoop(_, _, _)
\* the task stack that is "repeatedly copied into itself"
FWStackLoop(stack, i, bw) ==
  IF i > bw THEN stack
  ELSE LET index == i - 1 IN
       FWStackLoop([j \in 1..Len(stack) |->
                      IF j > index /\ j <= 2 * index THEN stack[j - index]
                      ELSE IF j = 2 * index + 1 THEN "adapt" ELSE stack[j]], 2 * i, bw)
FWStack(bw) == FWStackLoop(Rep("fw0", 2 * bw - 1), 2, bw)
RECURSIVE FWApply(_, _)
FWApply(stack, f) == IF stack = <<>> THEN f
                     ELSE FWApply(Front(stack), IF Last(stack) = "fw0" THEN ForWhile0(f) ELSE AdaptF(f))
ForWhileT(bw, f) == FWApply(FWStack(bw), f)

\* debug symbol wrapper (Scope::with_debug_symbol); site = identity of the call site
WithDbg(args, body, C, site) ==
  IF C.dbg THEN Comp(Pair(BitT(FALSE), args), AssertL(Drop(body), MarkerHash(site)))
  ELSE Comp(args, body)

\* ---- expressions ----------------------------------------------------------------------
RECURSIVE Cmp(_, _, _, _)
RECURSIVE CmpSeq(_, _, _, _)
RECURSIVE CmpBlk(_, _, _, _, _)

CmpSeq(es, tys, sc, C) == [i \in 1..Len(es) |-> Cmp(es[i], tys[i], sc, C)]

CmpBlk(ss, fin, ty, sc, C) ==
  IF ss = <<>> THEN (IF fin = <<>> THEN Unit ELSE Cmp(fin[1], ty, sc, C))
  ELSE LET s == Head(ss) IN
       IF s.k = "expr"
       THEN Comp(Pair(Cmp(s.e, TUnit, sc, C), CmpBlk(Tail(ss), fin, ty, sc, C)), Drop(Iden))
       ELSE LET t == Resolve(s.t, C.al)
                ex == Cmp(s.e, t, sc, C)                       \* compiled before the pattern is inserted
            IN Comp(Pair(ex, Iden), CmpBlk(Tail(ss), fin, ty, ScopeInsert(sc, s.p), C))

ParamsPattern(fn) == [k |-> "ptup", es |-> [i \in 1..Len(fn.params) |-> PId(fn.params[i].x)]]
CmpBody(fn, C) == Cmp(fn.body, fn.ret, ScopeChild(ParamsPattern(fn)), [C EXCEPT !.fns = fn.fns, !.al = fn.al])

CmpCall(e, ty, sc, C) ==
  LET f == e.f
      argTys == CASE f.k = "jet" -> JetSig(f.n).args
                  [] f.k = "unwrap_left" -> <<TEither(ty, Resolve(f.t, C.al))>>
                  [] f.k = "unwrap_right" -> <<TEither(Resolve(f.t, C.al), ty)>>
                  [] f.k = "is_none" -> <<TOpt(Resolve(f.t, C.al))>>
                  [] f.k = "unwrap" -> <<TOpt(ty)>>
                  [] f.k = "assert" -> <<TBool>>
                  [] f.k = "panic" -> <<>>
                  [] f.k = "dbg" -> <<ty>>
                  [] f.k = "cast" -> <<Resolve(f.t, C.al)>>
                  [] f.k = "fn" -> [i \in 1..Len(e.args) |-> C.fns[f.n].params[i].t]
                  [] f.k = "fold" -> <<TList(C.fns[f.n].params[1].t, f.b), C.fns[f.n].params[2].t>>
                  [] f.k = "for_while" -> <<C.fns[f.n].params[1].t, C.fns[f.n].params[2].t>>
      args == BalFold(CmpSeq(e.args, argTys, sc, C), "term")      \* SingleExpression::tuple(args) compiled first
      unwrapIn == Pair(Iden, Unit)
  IN CASE f.k = "jet" -> WithDbg(args, JetT(f.n), C, e)
       [] f.k = "unwrap_left" -> WithDbg(args, Comp(unwrapIn, AssertL(Take(Iden), FailHash)), C, e)
       [] f.k \in {"unwrap_right", "unwrap"} -> WithDbg(args, Comp(unwrapIn, AssertR(FailHash, Take(Iden))), C, e)
       [] f.k = "is_none" -> Comp(args, Comp(unwrapIn, Case(BitT(TRUE), BitT(FALSE))))
       [] f.k = "assert" -> WithDbg(args, JetT("verify"), C, e)
       [] f.k = "panic" -> WithDbg(args, Fail, C, e)
       [] f.k = "dbg" -> WithDbg(args, Iden, C, e)
       [] f.k = "cast" -> args
       [] f.k = "fn" -> Comp(args, CmpBody(C.fns[f.n], C))
       [] f.k = "fold" -> Comp(args, ListFoldT(f.b, CmpBody(C.fns[f.n], C)))
       [] f.k = "for_while" -> Comp(args, ForWhileT(C.fns[f.n].params[3].t.n, CmpBody(C.fns[f.n], C)))

CmpMatch(e, ty, sc, C) ==
  LET kind == MatchKind(e.arms)
      la == LeftArm(e.arms)
      ra == RightArm(e.arms)
      st == CASE kind = "either" -> TEither(Resolve(la.p.t, C.al), Resolve(ra.p.t, C.al))
              [] kind = "opt" -> TOpt(Resolve(ra.p.t, C.al))
              [] kind = "bool" -> TBool
      lp == IF kind = "either" THEN PId(la.p.x) ELSE PIgn
      rp == IF kind \in {"either", "opt"} THEN PId(ra.p.x) ELSE PIgn
      \* both arms are compiled (each in a pushed frame holding one pattern) before the scrutinee
      l == Cmp(la.e, ty, ScopeInsert(ScopePush(sc), lp), C)
      r == Cmp(ra.e, ty, ScopeInsert(ScopePush(sc), rp), C)
      s == Cmp(e.s, st, sc, C)
  IN Comp(Pair(s, Iden), Case(l, r))

Cmp(e, ty, sc, C) ==
  CASE e.k = "bool" -> Comp(Unit, Word(ToStruct(VBool(e.bv), ty)))
    [] e.k = "dec" -> Comp(Unit, Word(ToStruct(VU(DecValue(e.s, ty.n)), ty)))
    [] e.k = "bin" -> Comp(Unit, Word(ToStruct(VU(BinValue(e.s, ty.n)), ty)))
    [] e.k = "hex" -> Comp(Unit, Word(ToStruct(HexValue(e.s, ty), ty)))
    [] e.k = "wit" -> Witness(e.n)
    [] e.k = "param" -> Comp(Unit, Word(ToStruct(C.args[e.n], ty)))
    [] e.k = "var" -> LET p == ScopeGet(sc, e.x) IN IF p = NF THEN Cannot ELSE TermOfPath(p)
    [] e.k = "paren" -> Cmp(e.e, ty, sc, C)
    [] e.k = "tuple" -> BalFold(CmpSeq(e.es, ty.es, sc, C), "term")
    [] e.k = "array" -> BalFold(CmpSeq(e.es, Rep(ty.e, ty.n), sc, C), "term")
    [] e.k = "list" -> ListTerm(CmpSeq(e.es, Rep(ty.e, Len(e.es)), sc, C), ty.b)
    [] e.k = "left" -> InjL(Cmp(e.e, ty.l, sc, C))
    [] e.k = "right" -> InjR(Cmp(e.e, ty.r, sc, C))
    [] e.k = "none" -> InjL(Unit)
    [] e.k = "some" -> InjR(Cmp(e.e, ty.e, sc, C))
    [] e.k = "call" -> CmpCall(e, ty, sc, C)
    [] e.k = "match" -> CmpMatch(e, ty, sc, C)
    [] e.k = "block" -> CmpBlk(e.ss, e.fin, ty, ScopePush(sc), C)

\* Program::compile: main compiled in Scope::new
Compile(items, args, dbg) ==
  LET m == MainCtx(items, G0)
      C == [fns |-> m.G.fns, al |-> m.G.al, args |-> args, dbg |-> dbg]
  IN Cmp(m.body, TUnit, ScopeNew, C)

\* Verdict of the compiled program on a witness assignment (name -> value, typed by wtypes)
RunSimp(term, wit, wtypes) ==
  LET W == [wit |-> [n \in DOMAIN wit |-> ToStruct(wit[n], wtypes[n])], env |-> DummyEnv]
  IN ~IsSFail(EvS(term, SVU, W))
\* the same under a transaction environment; and the pruned program (branches not taken on this run
\* replaced by their hash): [ok, prunedOK, skelSame]
RunSimpEnv(term, wit, wtypes, env) ==
  LET W == [wit |-> [n \in DOMAIN wit |-> ToStruct(wit[n], wtypes[n])], env |-> env]
  IN ~IsSFail(EvS(term, SVU, W))
PruneCheck(term, wit, wtypes, env) ==
  LET W == [wit |-> [n \in DOMAIN wit |-> ToStruct(wit[n], wtypes[n])], env |-> env]
      p == PruneRun(term, SVU, W).t
  IN [prunedOK |-> ~IsSFail(EvS(p, SVU, W)), skelSame |-> Skel(p) = Skel(term)]
=============================================================================
