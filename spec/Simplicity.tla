----------------------------- MODULE Simplicity -----------------------------
(***************************************************************************)
(* Simplicity's core combinators and their (big-step) semantics on         *)
(* structural values - the published semantics of the Simplicity paper,    *)
(* plus witness, jet, word (scribed constant) and fail.                    *)
(*                                                                         *)
(*   EvS(t, v, W): output of term t on input v; W = [wit: witness name ->  *)
(*   structural value, env: transaction environment].  SFAIL if the Bit    *)
(*   Machine would fail (an assertion, `fail`, a failing jet).             *)
(***************************************************************************)
EXTENDS Jets

SFAIL == <<"FAIL">>
IsSFail(v) == v[1] = "FAIL"

Iden == [k |-> "iden"]
Unit == [k |-> "unit"]
InjL(t) == [k |-> "injl", a |-> t]
InjR(t) == [k |-> "injr", a |-> t]
Take(t) == [k |-> "take", a |-> t]
Drop(t) == [k |-> "drop", a |-> t]
Comp(s, t) == [k |-> "comp", a |-> s, b |-> t]
Pair(s, t) == [k |-> "pair", a |-> s, b |-> t]
Case(s, t) == [k |-> "case", a |-> s, b |-> t]
AssertL(s, h) == [k |-> "assertl", a |-> s, h |-> h]
AssertR(h, t) == [k |-> "assertr", h |-> h, b |-> t]
Fail == [k |-> "fail"]
Witness(n) == [k |-> "witness", n |-> n]
JetT(n) == [k |-> "jet", n |-> n]
Word(sv) == [k |-> "word", v |-> sv]            \* scribe: constant function 1 -> B
Cannot == [k |-> "cannot"]
\* hashes stored in assertions: all records
FailHash == [k |-> "hash", id |-> "fail0"]      \* CMR of fail(0), used by unwrap*
MarkerHash(i) == [k |-> "hash", id |-> i]       \* debug marker of tracked call number i                      \* code generation failed here (never in a correct compiler)

BitT(b) == IF b THEN InjR(Unit) ELSE InjL(Unit)
\* selector abbreviations of src/named.rs
OH == Take(Iden)
IH == Drop(Iden)
OOH == Take(Take(Iden))
OIH == Take(Drop(Iden))
IOH == Drop(Take(Iden))
IIH == Drop(Drop(Iden))

\* a jet applied to a structural input
JetS(name, sv, env) ==
  LET sig == JetSig(name)
      vs == Reconstruct(sv, TTup(sig.args)).es
      r == JetEvalEnv(name, vs, env)
  IN IF r.k = "FAIL" THEN SFAIL ELSE ToStruct(r, sig.ret)

RECURSIVE EvS(_, _, _)
EvS(t, v, W) ==
  CASE t.k = "iden" -> v
    [] t.k = "unit" -> SVU
    [] t.k = "injl" -> LET r == EvS(t.a, v, W) IN IF IsSFail(r) THEN SFAIL ELSE SVL(r)
    [] t.k = "injr" -> LET r == EvS(t.a, v, W) IN IF IsSFail(r) THEN SFAIL ELSE SVR(r)
    [] t.k = "take" -> EvS(t.a, v[2], W)
    [] t.k = "drop" -> EvS(t.a, v[3], W)
    [] t.k = "comp" -> LET r == EvS(t.a, v, W) IN IF IsSFail(r) THEN SFAIL ELSE EvS(t.b, r, W)
    [] t.k = "pair" -> LET l == EvS(t.a, v, W) IN
                       IF IsSFail(l) THEN SFAIL
                       ELSE LET r == EvS(t.b, v, W) IN IF IsSFail(r) THEN SFAIL ELSE SVP(l, r)
    [] t.k = "case" -> IF v[2][1] = "L" THEN EvS(t.a, SVP(v[2][2], v[3]), W) ELSE EvS(t.b, SVP(v[2][2], v[3]), W)
    [] t.k = "assertl" -> IF v[2][1] = "L" THEN EvS(t.a, SVP(v[2][2], v[3]), W) ELSE SFAIL
    [] t.k = "assertr" -> IF v[2][1] = "R" THEN EvS(t.b, SVP(v[2][2], v[3]), W) ELSE SFAIL
    [] t.k = "fail" -> SFAIL
    [] t.k = "witness" -> W.wit[t.n]
    [] t.k = "jet" -> JetS(t.n, v, W.env)
    [] t.k = "word" -> t.v
    [] t.k = "cannot" -> SFAIL

RECURSIVE HasCannot(_)
HasCannot(t) ==
  CASE t.k \in {"iden", "unit", "fail", "witness", "jet", "word"} -> FALSE
    [] t.k = "cannot" -> TRUE
    [] t.k \in {"injl", "injr", "take", "drop", "assertl"} -> HasCannot(t.a)
    [] t.k = "assertr" -> HasCannot(t.b)
    [] t.k \in {"comp", "pair", "case"} -> HasCannot(t.a) \/ HasCannot(t.b)

\* Abstract CMR: the term with witness payloads erased (witness nodes carry no data in a
\* commitment) - the information a commitment Merkle root commits to.  Terms here never
\* contain witness *values*, so Skel is the identity on them; pruning replaces an untaken
\* case branch by its (opaque) hash.
RECURSIVE Skel(_)
Skel(t) ==
  CASE t.k \in {"iden", "unit", "fail", "witness", "jet", "word", "cannot", "hidden", "hash"} -> t
    [] t.k \in {"injl", "injr", "take", "drop"} -> [t EXCEPT !.a = Skel(t.a)]
    [] t.k = "assertl" -> [k |-> "case", a |-> Skel(t.a), b |-> IF t.h.k = "hidden" THEN t.h.of ELSE t.h]
    [] t.k = "assertr" -> [k |-> "case", a |-> IF t.h.k = "hidden" THEN t.h.of ELSE t.h, b |-> Skel(t.b)]
    [] t.k \in {"comp", "pair", "case"} -> [t EXCEPT !.a = Skel(t.a), !.b = Skel(t.b)]

\* ---- pruning: remove case branches a given run never takes -------------------------------
\* Prune(t, v, W) = the term with every `case` whose one branch is not taken on input v
\* replaced by the corresponding assertion (the hidden branch keeps its abstract CMR).
Hidden(t) == [k |-> "hidden", of |-> Skel(t)]
RECURSIVE PruneRun(_, _, _)
\* returns [t |-> pruned term, v |-> output] ; only called on runs that succeed
PruneRun(t, v, W) ==
  CASE t.k \in {"iden", "unit", "witness", "jet", "word", "fail", "cannot"} -> [t |-> t, v |-> EvS(t, v, W)]
    [] t.k = "injl" -> LET r == PruneRun(t.a, v, W) IN [t |-> InjL(r.t), v |-> SVL(r.v)]
    [] t.k = "injr" -> LET r == PruneRun(t.a, v, W) IN [t |-> InjR(r.t), v |-> SVR(r.v)]
    [] t.k = "take" -> LET r == PruneRun(t.a, v[2], W) IN [t |-> Take(r.t), v |-> r.v]
    [] t.k = "drop" -> LET r == PruneRun(t.a, v[3], W) IN [t |-> Drop(r.t), v |-> r.v]
    [] t.k = "comp" -> LET l == PruneRun(t.a, v, W)
                           r == PruneRun(t.b, l.v, W)
                       IN [t |-> Comp(l.t, r.t), v |-> r.v]
    [] t.k = "pair" -> LET l == PruneRun(t.a, v, W)
                           r == PruneRun(t.b, v, W)
                       IN [t |-> Pair(l.t, r.t), v |-> SVP(l.v, r.v)]
    [] t.k = "case" -> IF v[2][1] = "L"
                       THEN LET r == PruneRun(t.a, SVP(v[2][2], v[3]), W) IN [t |-> AssertL(r.t, Hidden(t.b)), v |-> r.v]
                       ELSE LET r == PruneRun(t.b, SVP(v[2][2], v[3]), W) IN [t |-> AssertR(Hidden(t.a), r.t), v |-> r.v]
    [] t.k = "assertl" -> LET r == PruneRun(t.a, SVP(v[2][2], v[3]), W) IN [t |-> AssertL(r.t, t.h), v |-> r.v]
    [] t.k = "assertr" -> LET r == PruneRun(t.b, SVP(v[2][2], v[3]), W) IN [t |-> AssertR(t.h, r.t), v |-> r.v]
=============================================================================
