SPECIFICATION Spec
CONSTANTS
  NSites = 4
  NParams = 3
INVARIANT MarkerOfSite
INVARIANT DistinctMarkers
INVARIANT OutcomeDetermined
VIEW View
CHECK_DEADLOCK FALSE
