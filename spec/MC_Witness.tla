----------------------------- MODULE MC_Witness -----------------------------
(***************************************************************************)
(* C05: satisfy type-checks witnesses (nominally) and delivers each value  *)
(* to its name.  Programs with 0..8 witnesses whose types are drawn from   *)
(* classes of layout-equal but different types; each witness is compared   *)
(* with its own literal (pairwise distinct), so a value delivered to the   *)
(* wrong name changes the verdict.  Witness maps: exact, values permuted   *)
(* among same-typed names, one name missing, extra names, a same-layout    *)
(* value of another type, a value of another layout.                       *)
(***************************************************************************)
EXTENDS ProgMC

T1 == TU(1)
T8 == TU(8)
T16 == TU(16)
\* classes of layout-equal types, with the integer type used for the comparison
Class16 == <<T16, TTup(<<T8, T8>>), TArr(T8, 2), TTup(<<TTup(<<TU(4), TU(4)>>), T8>>)>>
Class1 == <<TBool, T1, TEither(TUnit, TUnit), TOpt(TUnit)>>
Class8 == <<T8, TTup(<<TU(4), TU(4)>>), TArr(TU(4), 2)>>
Class9 == <<TOpt(T8), TEither(TUnit, T8)>>

Names == <<"A", "B", "C", "D", "E", "F", "G", "H">>

\* a witness slot: [n, t (declared type), c (class number), i (position)]
\* value number j of a class, as a value of type t (all types of a class share the bits)
BitsVal(c, j) == CASE c = 16 -> BitsOfNat(1000 + 77 * j, 16)
                   [] c = 8 -> BitsOfNat(10 + 7 * j, 8)
                   [] c = 1 -> <<j % 2>>
ClassInt(c) == CASE c = 16 -> T16 [] c = 8 -> T8 [] c = 1 -> T1
ValOfBits(c, j, t) == IF c = 9 THEN (IF t.k = "opt" THEN VSome(VU(BitsOfNat(20 + j, 8))) ELSE VRight(VU(BitsOfNat(20 + j, 8))))
                      ELSE CastValue(VU(BitsVal(c, j)), ClassInt(c), t)

\* statement comparing witness slot s with its literal (value number s.i)
CheckStmt(s) ==
  IF s.c = 9
  THEN SExpr(AssertE(JetE("eq_8", <<Call1(CUnwrap, IF s.t.k = "opt" THEN EWit(s.n) ELSE CastE(s.t, EWit(s.n))),
                                     LitOf(VU(BitsOfNat(20 + s.i, 8)), T8)>>)))
  ELSE LET it == ClassInt(s.c)
           w == IF s.t = it THEN EWit(s.n) ELSE CastE(s.t, EWit(s.n))
       IN SExpr(AssertE(JetE(EqJet(it.n), <<w, LitOf(VU(BitsVal(s.c, s.i)), it)>>)))

Program(slots) == <<Main(Blk([i \in 1..Len(slots) |-> CheckStmt(slots[i])]))>>

Entry(n, t, v) == [n |-> n, ty |-> t, v |-> v]
Exact(slots) == [i \in 1..Len(slots) |-> Entry(slots[i].n, slots[i].t, ValOfBits(slots[i].c, slots[i].i, slots[i].t))]

ClassOf(c) == CASE c = 16 -> Class16 [] c = 8 -> Class8 [] c = 1 -> Class1 [] c = 9 -> Class9
OtherLayout(c) == IF c = 16 THEN Entry("x", T8, VU(BitsOfNat(1, 8))) ELSE Entry("x", T16, VU(BitsOfNat(1, 16)))

\* the maps tried for a slot assignment
MapsFor(slots) ==
  LET n == Len(slots)
      ex == Exact(slots)
      swap(i, j) == [k \in 1..n |-> IF k = i THEN Entry(ex[i].n, ex[j].ty, ex[j].v)
                                   ELSE IF k = j THEN Entry(ex[j].n, ex[i].ty, ex[i].v) ELSE ex[k]]
      drop(i) == SelectSeq(ex, LAMBDA e : e.n # ex[i].n)
      retype(i, t) == [k \in 1..n |-> IF k = i THEN Entry(ex[i].n, t, ValOfBits(slots[i].c, slots[i].i, t)) ELSE ex[k]]
      relayout(i) == [k \in 1..n |-> IF k = i THEN [OtherLayout(slots[i].c) EXCEPT !.n = ex[i].n] ELSE ex[k]]
      extra == ex \o <<Entry("ZZ", T16, VU(BitsOfNat(5, 16))), Entry("Unused", TTup(<<TBool, TBool>>), VTup(<<VBool(TRUE), VBool(FALSE)>>))>>
      \* an ill-typed entry together with names the program does not use (sorting before / between / after the
      \* declared names): unused names must neither hide nor cause a type error
      unusedLo == <<Entry("A0", T8, VU(BitsOfNat(7, 8)))>>
      unusedMid == <<Entry("C_x", TBool, VBool(TRUE))>>
      unusedHi == <<Entry("zz", T16, VU(BitsOfNat(9, 16)))>>
      \* ill-typed values whose content does not show it (None at another element type, the untaken side of an Either)
      hiddenW(i) == LET t == slots[i].t IN
                    IF t.k = "opt" THEN <<[k \in 1..n |-> IF k = i THEN Entry(ex[i].n, TOpt(T16), VNone) ELSE ex[k]]>>
                    ELSE IF t.k = "either"
                    THEN <<[k \in 1..n |-> IF k = i THEN Entry(ex[i].n, TEither(t.l, T16), VLeft(ZeroVal(t.l))) ELSE ex[k]],
                           [k \in 1..n |-> IF k = i THEN Entry(ex[i].n, TEither(T16, t.r), VRight(ZeroVal(t.r))) ELSE ex[k]]>>
                    ELSE IF t.k = "tup" /\ t.es # <<>>
                    \* a tuple with one component more / less, and the empty tuple
                    THEN LET longer == TTup(t.es \o <<T8>>) shorter == TTup(Front(t.es)) IN
                         <<[k \in 1..n |-> IF k = i THEN Entry(ex[i].n, longer, ZeroVal(longer)) ELSE ex[k]],
                           [k \in 1..n |-> IF k = i THEN Entry(ex[i].n, shorter, ZeroVal(shorter)) ELSE ex[k]],
                           [k \in 1..n |-> IF k = i THEN Entry(ex[i].n, TUnit, VUnit) ELSE ex[k]]>>
                    ELSE <<>>
      bad(i) == LET cl == ClassOf(slots[i].c) IN retype(i, cl[((CHOOSE k \in 1..Len(cl) : cl[k] = slots[i].t) % Len(cl)) + 1])
  IN <<ex, extra>>
     \o Concat([i \in 1..n |-> <<unusedLo \o bad(i), bad(i) \o unusedHi, unusedLo \o bad(i) \o unusedMid \o unusedHi,
                                 unusedMid \o relayout(i)>>])
     \o <<unusedLo \o ex \o unusedMid \o unusedHi>>
     \o Concat([i \in 1..n |-> hiddenW(i)])
     \o [i \in 1..n |-> drop(i)]
     \o [i \in 1..n |-> relayout(i)]
     \o Concat([i \in 1..n |-> LET cl == ClassOf(slots[i].c) IN [k \in 1..Len(cl) |-> retype(i, cl[k])]])
     \o Concat([i \in 1..n |-> [j \in 1..(n - i) |-> swap(i, i + j)]])
     \o (IF n >= 1 THEN <<drop(1) \o <<Entry("ZZ", T8, VU(BitsOfNat(5, 8)))>>, <<>>>> ELSE <<<<>>>>)

\* slot assignments: number of witnesses 0..8, types rotating through the classes
SlotSeq(k, rot) ==
  [i \in 1..k |-> LET c == <<16, 1, 8, 16, 9, 1, 16, 8>>[((i + rot) % 8) + 1]
                      cl == ClassOf(c)
                  IN [n |-> Names[i], c |-> c, i |-> i, t |-> cl[((i + rot) % Len(cl)) + 1]]]

WFamilies == {[k |-> k, rot |-> r] : k \in 0..8, r \in 0..(IF Thorough THEN 7 ELSE 2)}
\* the same checks placed in the two arms of a match (the first witness in the `false` arm, the others in the `true`
\* arm): a witness that occurs only in one arm is declared - and type-checked by satisfy - like any other
ProgramArms(slots, sel) ==
  <<Main(Blk(<<SExpr(EMatch(EBool(sel),
                            <<Arm(MFalse, Blk(<<CheckStmt(slots[1])>>)),
                              Arm(MTrue, Blk([i \in 1..(Len(slots) - 1) |-> CheckStmt(slots[i + 1])]))>>))>>))>>
WProgramsOf(f) ==
  LET slots == SlotSeq(f.k, f.rot)
      ex == Exact(slots)
      mk(items) == [items |-> items, wdecls |-> [i \in 1..Len(slots) |-> <<slots[i].n, slots[i].t>>], args |-> EmptyFn,
                    space |-> <<AsFn(ex)>>, maps |-> MapsFor(slots), tag |-> "witness"]
  IN {mk(Program(slots))}
     \cup (IF f.k \in 2..4 THEN {mk(ProgramArms(slots, TRUE)), mk(ProgramArms(slots, FALSE))} ELSE {})
=============================================================================
