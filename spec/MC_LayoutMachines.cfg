SPECIFICATION Spec
INVARIANT BTreeCorrect
INVARIANT UnfoldCorrect
INVARIANT PartitionCorrect
INVARIANT CombineCorrect
INVARIANT SplitProper
CHECK_DEADLOCK FALSE
