SPECIFICATION Spec
CONSTANTS
  Families <- APFamilies
  ProgramsOf <- APProgramsOf
INVARIANT GeneratedWellFormed
INVARIANT WitnessTypesAsDeclared
INVARIANT CompileCorrect
INVARIANT DebugNeutral
INVARIANT CodegenTotal
INVARIANT Emit
CHECK_DEADLOCK FALSE
