------------------------------ MODULE MC_Params -----------------------------
(***************************************************************************)
(* C12: template instantiation equals literal substitution.                *)
(* Programs with 0..4 parameters of several types, used in main, in a      *)
(* function that is called, and in a function that is never called.        *)
(*  - parameters() must report exactly the param:: occurrences with their  *)
(*    types (Analyze of Static.tla);                                        *)
(*  - instantiate must fail exactly when a reported parameter has no        *)
(*    argument or one of another type (extra arguments ignored);            *)
(*  - the instantiated program behaves on every witness like the program    *)
(*    with each argument written literally in place of param::NAME.         *)
(***************************************************************************)
EXTENDS ProgMC

T1 == TU(1)
T2 == TU(2)
T8 == TU(8)
\* positions 9..: zero-width types that are NOT the unit type itself (their argument is still written into the program)
ParamTys == <<T8, TTup(<<T1, T2>>), TOpt(T2), TArr(T2, 2), TList(T1, 4), TEither(T1, T2), TBool, TU(16),
              TTup(<<TUnit, TUnit>>), TArr(TUnit, 2), TUnit, TTup(<<TArr(T8, 0), TUnit>>), TOpt(TUnit)>>
PNamesSeq == <<"P", "Q", "R", "S">>

\* literal substitution of arguments (name -> [ty, v]) for param:: expressions
RECURSIVE SubstE(_, _)
RECURSIVE SubstS(_, _)
SubstS(s, args) == IF s.k = "let" THEN [s EXCEPT !.e = SubstE(s.e, args)] ELSE [s EXCEPT !.e = SubstE(s.e, args)]
SubstE(e, args) ==
  CASE e.k = "param" -> LitOf(args[e.n].v, args[e.n].ty)
    [] e.k \in {"bool", "dec", "bin", "hex", "wit", "var", "none"} -> e
    [] e.k \in {"paren", "left", "right", "some"} -> [e EXCEPT !.e = SubstE(e.e, args)]
    [] e.k \in {"tuple", "array", "list"} -> [e EXCEPT !.es = [i \in 1..Len(e.es) |-> SubstE(e.es[i], args)]]
    [] e.k = "call" -> [e EXCEPT !.args = [i \in 1..Len(e.args) |-> SubstE(e.args[i], args)]]
    [] e.k = "match" -> [e EXCEPT !.s = SubstE(e.s, args),
                                  !.arms = [i \in 1..2 |-> [e.arms[i] EXCEPT !.e = SubstE(e.arms[i].e, args)]]]
    [] e.k = "block" -> [e EXCEPT !.ss = [i \in 1..Len(e.ss) |-> SubstS(e.ss[i], args)],
                                  !.fin = [i \in 1..Len(e.fin) |-> SubstE(e.fin[i], args)]]
SubstItems(items, args) ==
  [i \in 1..Len(items) |-> IF items[i].k = "fn" THEN [items[i] EXCEPT !.body = SubstE(items[i].body, args)] ELSE items[i]]

\* a program over parameter slots ps (sequence of [n, t]); slot 1 used in main, slot 2 in a called function,
\* slot 3 in a function that is never called, slot 4 twice in main (same type)
Prog(ps) ==
  LET n == Len(ps)
      called == IF n >= 2 THEN <<IFn("usep", <<>>, <<ps[2].t>>, BlkE(<<>>, EParam(ps[2].n)))>> ELSE <<>>
      unused == IF n >= 3 THEN <<IFn("never", <<Param("x", T1)>>, <<ps[3].t>>, BlkE(<<>>, EParam(ps[3].n)))>> ELSE <<>>
      \* loops in front of the parameter uses (the compiler hands its argument map to the scope of a loop function)
      loops == <<IFn("keepacc", <<Param("e", T8), Param("acc", T8)>>, <<T8>>, BlkE(<<>>, V("acc"))),
                 IFn("stop", <<Param("acc", T8), Param("c", T8), Param("i", T1)>>, <<TEither(T8, T8)>>, BlkE(<<>>, ELeft(V("acc"))))>>
      s0 == IF n >= 1 THEN <<SLet(PId("f0"), T8, ECall(CFold("keepacc", 2), <<EList(<<Dec(1)>>), Dec(7)>>)),
                             SLet(PId("l0"), TEither(T8, T8), ECall(CForWhile("stop"), <<V("f0"), Dec(0)>>))>> ELSE <<>>
      s1 == IF n >= 1 THEN <<SLet(PId("r"), ps[1].t, EParam(ps[1].n)), SLet(PId("x"), ps[1].t, EWit("E1"))>> \o Obs(ps[1].t, "r", "x") ELSE <<>>
      s2 == IF n >= 2 THEN <<SExpr(Blk(<<SLet(PId("r"), ps[2].t, ECall(CFn("usep"), <<>>)), SLet(PId("x"), ps[2].t, EWit("E2"))>> \o Obs(ps[2].t, "r", "x")))>> ELSE <<>>
      s4 == IF n >= 4 THEN <<SExpr(Blk(<<SLet(PId("r"), ps[4].t, EParam(ps[4].n)), SLet(PId("x"), ps[4].t, EParam(ps[4].n))>> \o Obs(ps[4].t, "r", "x")))>> ELSE <<>>
      \* a function written AFTER main (never callable from main) still contributes its param:: occurrences
      late == IF n >= 3 THEN <<IFn("late", <<>>, <<ps[3].t>>, BlkE(<<>>, EParam(ps[3].n)))>> ELSE <<>>
  IN (IF n >= 1 THEN loops ELSE <<>>) \o called \o (IF n = 3 THEN <<>> ELSE unused)
     \o <<Main(Blk(s0 \o s1 \o s2 \o s4))>> \o (IF n = 3 THEN late ELSE <<>>)

WDeclsOf(ps) == (IF Len(ps) >= 1 THEN <<<<"E1", ps[1].t>>>> ELSE <<>>) \o (IF Len(ps) >= 2 THEN <<<<"E2", ps[2].t>>>> ELSE <<>>)

ArgVal(t, j) == LET vs == SetToSeq(Vals(t, 2, 4)) IN vs[(j % Len(vs)) + 1]
Entry(n, t, v) == [n |-> n, ty |-> t, v |-> v]

ArgMapsFor(ps, j) ==
  LET n == Len(ps)
      ex == [i \in 1..n |-> Entry(ps[i].n, ps[i].t, ArgVal(ps[i].t, j + i))]
      drop(i) == SelectSeq(ex, LAMBDA e : e.n # ex[i].n)
      retype(i, t) == [k \in 1..n |-> IF k = i THEN Entry(ex[i].n, t, ArgVal(t, j)) ELSE ex[k]]
      other(t) == IF t = T8 THEN TTup(<<TU(4), TU(4)>>) ELSE IF t = TBool THEN T1 ELSE IF t.k = "opt" THEN TEither(TUnit, t.e) ELSE T8
      \* mistyped arguments whose VALUE does not show the difference: the type differs only where the value has no
      \* content (the element type of None / of an empty list, the untaken side of Left / Right, the list bound)
      hidden(t) == CASE t.k = "opt" -> <<[ty |-> TOpt(T8), v |-> VNone]>>
                     [] t.k = "either" -> <<[ty |-> TEither(t.l, T8), v |-> VLeft(ArgVal(t.l, j))],
                                            [ty |-> TEither(T8, t.r), v |-> VRight(ArgVal(t.r, j))]>>
                     [] t.k = "list" -> <<[ty |-> TList(T8, t.b), v |-> VList(<<>>)], [ty |-> TList(t.e, 2 * t.b), v |-> VList(<<>>)]>>
                     [] OTHER -> <<>>
      hid(i) == LET h == hidden(ps[i].t) IN
                [m \in 1..Len(h) |-> [k \in 1..n |-> IF k = i THEN Entry(ex[i].n, h[m].ty, h[m].v) ELSE ex[k]]]
  IN <<ex, ex \o <<Entry("ZZ", T8, ArgVal(T8, 1))>>, <<>>>>
     \o [i \in 1..n |-> drop(i)]
     \o [i \in 1..n |-> retype(i, other(ps[i].t))]
     \o Concat([i \in 1..n |-> hid(i)])
     \* two kinds of difference in one map: a missing / re-typed argument next to names the program does not use
     \o [i \in 1..n |-> drop(i) \o <<Entry("ZZ", T8, ArgVal(T8, 1))>>]
     \o [i \in 1..n |-> drop(i) \o <<Entry("ZZ", T8, ArgVal(T8, 1)), Entry("AA0", TBool, VBool(TRUE))>>]
     \o [i \in 1..n |-> retype(i, other(ps[i].t)) \o <<Entry("ZZ", T8, ArgVal(T8, 1))>>]

PFamilies == {[k |-> k, rot |-> r] : k \in 0..4, r \in 0..(IF Thorough THEN 7 ELSE 3)}
             \cup {[k |-> 4, rot |-> 7], [k |-> 4, rot |-> 8], [k |-> 2, rot |-> 10], [k |-> 2, rot |-> 11]}
PProgramsOf(f) ==
  LET ps == [i \in 1..f.k |-> [n |-> PNamesSeq[i], t |-> ParamTys[((i + f.rot) % Len(ParamTys)) + 1]]]
      items == Prog(ps)
  IN {[items |-> items, wdecls |-> WDeclsOf(ps), tag |-> "params",
       args |-> [nm \in {ps[i].n : i \in 1..f.k} |->
                   LET i == CHOOSE i2 \in 1..f.k : ps[i2].n = nm IN [ty |-> ps[i].t, v |-> ArgVal(ps[i].t, j + i)]],
       alt |-> SubstItems(items, [nm \in {ps[i].n : i \in 1..f.k} |->
                   LET i == CHOOSE i2 \in 1..f.k : ps[i2].n = nm IN [ty |-> ps[i].t, v |-> ArgVal(ps[i].t, j + i)]]),
       argmaps |-> ArgMapsFor(ps, j)] : j \in 0..(IF Thorough THEN 3 ELSE 1)}
=============================================================================
