----------------------------- MODULE MC_Mutate ------------------------------
(***************************************************************************)
(* C06 (inputs also used by C20): grammar-aware mutation of valid texts.   *)
(* State = a token sequence (a program, a witness / param module, a JSON   *)
(* map, a value, a type).  Actions: insert, delete, replace, duplicate one *)
(* token, taken from a lexicon that contains every terminal of the grammar *)
(* and the edge literals (`_`, `0x_`, `0b_`, digit runs, unterminated      *)
(* comments, CR, TAB, non-ASCII).  Depth <= 2 edits.  The API lifecycle    *)
(* machine has three outcomes per entry point: Ok, Err, Panicked; the      *)
(* property is that Panicked is unreachable - observed on the real code.   *)
(***************************************************************************)
EXTENDS Family, Json, IOUtils

Thorough == IOEnv.VERIF_TIER = "thorough"
Seed == atoi(IOEnv.VERIF_SEED)

T8 == TU(8)
\* ---- seeds ------------------------------------------------------------------------------
ProgSeed1 ==
  TokProg(<<IAlias("Pair", TTup(<<T8, TBuiltin("Height")>>)),
            IFn("pick", <<Param("p", TAlias("Pair")), Param("o", TOpt(T8))>>, <<T8>>,
                BlkE(<<SLet(PTup(<<PId("a"), PIgn>>), TAlias("Pair"), V("p"))>>,
                     EMatch(V("o"), <<Arm(MNone, V("a")), Arm(MSome("x", T8), BlkE(<<>>, V("x")))>>))),
            IFn("step", <<Param("e", T8), Param("acc", T8)>>, <<T8>>, BlkE(<<>>, V("acc"))),
            Main(Blk(<<SLet(PId("w"), TEither(T8, TArr(T8, 2)), EWit("W")),
                       SLet(PId("l"), TList(T8, 4), EList(<<Dec(1), HexLit(BitsOfNat(171, 8)), EParam("P")>>)),
                       SLet(PId("s"), T8, ECall(CFold("step", 4), <<V("l"), ECall(CFn("pick"), <<ETuple(<<Dec(2), Dec(3)>>), ESome(Dec(4))>>)>>)),
                       SExpr(AssertE(JetE("eq_8", <<V("s"), Call1(CUnwrapLeft(TArr(T8, 2)), V("w"))>>))),
                       SLet(PArr(<<PId("b"), PIgn>>), TArr(TBool, 2), EArray(<<EBool(TRUE), Call1(CIsNone(T8), ENone)>>)),
                       SLet(PId("c"), TU(16), CastE(TTup(<<T8, T8>>), Call1(CDbg, ETuple(<<BinLit(BitsOfNat(5, 8)), Dec(0)>>))))>>))>>)
ProgSeed2 ==
  TokProg(<<IFn("body", <<Param("a", T8), Param("c", TUnit), Param("i", TU(2))>>, <<TEither(TUnit, T8)>>,
                BlkE(<<>>, ERight(V("a")))),
            IMod,
            Main(Blk(<<SLet(PId("r"), TEither(TUnit, T8), ECall(CForWhile("body"), <<Dec(7), EUnit>>)),
                       SExpr(EMatch(V("r"), <<Arm(MLeft("u", TUnit), ECall(CPanic, <<>>)), Arm(MRight("v", T8), AssertE(JetE("eq_8", <<V("v"), Dec(7)>>)))>>))>>))>>)
ModSeed == <<"mod", "witness", "{", "const", "A", ":", <<"u", "8">>, "=", "1", ";",
             "const", "B", ":", "Either<", "bool", ",", "[", <<"u", "8">>, ";", "2", "]", ">", "=", "Right(", <<"0x", "a", "b", "0", "1">>, ")", ";", "}",
             "mod", "param", "{", "const", "P", ":", "List<", <<"u", "1">>, ",", "4", ">", "=", "list![", "0", ",", "1", "]", ";", "}">>
JsonSeed == <<"{", "\"A\"", ":", "{", "\"value\"", ":", "\"(1, None)\"", ",", "\"type\"", ":", "\"(u8, Option<bool>)\"", "}", ",",
              "\"B\"", ":", "{", "\"value\"", ":", "\"0xabcd\"", ",", "\"type\"", ":", "\"u16\"", "}", "}">>
ValueSeed == <<"(", "1", ",", "Some(", "[", <<"0x", "f", "f">>, ",", "2", "]", ")", ",", "list![", "true", "]", ",", "Left(", "(", ")", ")", ")">>
TypeSeed == <<"(", <<"u", "8">>, ",", "Either<", "Option<", "bool", ">", ",", "[", "List<", <<"u", "1">>, ",", "4", ">", ";", "3", "]", ">", ",", "Pubkey", ")">>

Seeds == <<[entry |-> "program", toks |-> ProgSeed1], [entry |-> "program", toks |-> ProgSeed2],
           [entry |-> "witmod", toks |-> ModSeed], [entry |-> "json", toks |-> JsonSeed],
           [entry |-> "value", toks |-> ValueSeed], [entry |-> "type", toks |-> TypeSeed]>>

\* ---- lexicon -------------------------------------------------------------------------------
Lexicon ==
  <<"fn", "let", "match", "type", "mod", "const", "witness", "param", "main", "{", "}", "(", ")", "[", "]", "<", ">", ",", ";", ":", "=", "=>", "->",
    "_", "0", "1", "255", "256", <<"0x", "_">>, <<"0b", "_">>, <<"0x", "0">>, <<"0b", "2">>, <<"0x", "a", "b", "c">>,
    <<"0x", "1", "2", "3", "4", "5">>, <<"0b", "1", "0", "1">>, <<"0", "0", "7">>, <<"0", "2", "5", "5">>, <<"1", "_">>, <<"_", "_", "1">>,
    [i \in 1..80 |-> "9"], "true", "false", "None", "Some(", "Left(", "Right(", "list![", "Either<", "Option<", "List<",
    <<"u", "8">>, <<"u", "3">>, "bool", "Pubkey", <<"witness::", "W">>, <<"param::", "P">>, <<"jet::", "eq_8">>, <<"jet::", "nope">>, "unwrap",
    <<"unwrap_left::<">>, "is_none::<", "assert!", "panic!", "dbg!", ">::into", "fold::<", "for_while::<", "x", "a", "step",
    "/*", "*/", "//", "\r", "\t", "\"", "\\", "é", "漢", "'", "#", "::", "!", ".", "-", "+", "18446744073709551616", "[u8; 65536]",
    "List<u8, 0>", "List<u8, 3>", "List<u8, 65536>", "[u8; 18446744073709551616]", "\"value\"", "\"type\"", "null", "\"\\u0000\"">>

VARIABLES seed, toks, depth, first
vars == <<seed, toks, depth, first>>

MaxDepth == 2
\* every position / lexicon entry at depth 1; at depth 2 a slice selected by the seed:
\* only 1 in Slice first-level mutants is mutated again, at 1/7 of the positions with 1/9 of the lexicon
Slice == IF Thorough THEN 40 ELSE 400
Positions(t, d) == IF d = 0 THEN 1..Len(t) ELSE {i \in 1..Len(t) : (i + Seed) % 7 = 0}
LexAt(d) == IF d = 0 THEN 1..Len(Lexicon) ELSE {i \in 1..Len(Lexicon) : (i + Seed) % 9 = 0}
Expand == depth = 0 \/ (first[1] * 13 + first[2] * 7 + Seed) % Slice = 0

Init == depth = 0 /\ seed \in 1..Len(Seeds) /\ toks = Seeds[seed].toks /\ first = <<0, 0>>
Insert(i, k) == toks' = SubSeq(toks, 1, i - 1) \o <<Lexicon[k]>> \o SubSeq(toks, i, Len(toks))
Delete(i) == toks' = SubSeq(toks, 1, i - 1) \o SubSeq(toks, i + 1, Len(toks))
Replace(i, k) == toks' = [toks EXCEPT ![i] = Lexicon[k]]
Duplicate(i) == toks' = SubSeq(toks, 1, i) \o SubSeq(toks, i, Len(toks))
Truncate(i) == toks' = SubSeq(toks, 1, i)             \* the text ends after token i (errors at the end of input)
Next == /\ depth < MaxDepth /\ Expand
        /\ depth' = depth + 1 /\ seed' = seed
        /\ \E i \in Positions(toks, depth) :
             \/ \E k \in LexAt(depth) : (Insert(i, k) \/ Replace(i, k)) /\ first' = IF depth = 0 THEN <<i, k>> ELSE first
             \/ (Delete(i) \/ Duplicate(i) \/ Truncate(i)) /\ first' = IF depth = 0 THEN <<i, 0>> ELSE first
Spec == Init /\ [][Next]_vars

Emit == PrintT(<<"REPLAY", ToJson([kind |-> "total", entry |-> Seeds[seed].entry, tokens |-> toks, depth |-> depth])>>)
=============================================================================
