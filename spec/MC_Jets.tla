------------------------------- MODULE MC_Jets ------------------------------
(***************************************************************************)
(* C13: jets are callable with the documented arity, order and result type.*)
(*  sig  - for EVERY jet of the golden table (JetTable.tla): a one-call     *)
(*         program whose arguments are witnesses of the documented          *)
(*         parameter types (builtin aliases written by name) and whose      *)
(*         result is bound at the documented result type must be accepted;  *)
(*         the two reserved jets must be rejected.                          *)
(*  sem  - for every jet with a closed-form meaning (Jets.tla, 304 jets):   *)
(*         boundary and asymmetric argument tuples; the result is compared  *)
(*         (Observe) with a witness holding the value of the closed form    *)
(*         (must succeed) and a perturbed value (must fail), so a swapped   *)
(*         argument order or result grouping changes a verdict.             *)
(***************************************************************************)
EXTENDS ProgMC

ArgNames == <<"A1", "A2", "A3", "A4", "A5", "A6", "A7", "A8">>
VarNames == <<"a1", "a2", "a3", "a4", "a5", "a6", "a7", "a8">>

\* documented signature with aliases by name (as a user writes it)
RawSig(name) == JetTable[name]

CallProgram(name, observe) ==
  LET s == RawSig(name)
      n == Len(s.args)
      lets == [i \in 1..n |-> SLet(PId(VarNames[i]), s.args[i], EWit(ArgNames[i]))]
      call == JetE(name, [i \in 1..n |-> V(VarNames[i])])
      rt == ResolveBuiltins(s.ret)
  IN <<Main(Blk(lets \o <<SLet(PId("r"), s.ret, call)>>
                \o (IF observe THEN <<SLet(PId("x"), s.ret, EWit("EXP"))>> \o Obs(rt, "r", "x") ELSE <<>>)))>>

SigDecls(name) == LET s == JetSig(name) IN [i \in 1..Len(s.args) |-> <<ArgNames[i], s.args[i]>>]

\* ---- argument tuples for the closed-form jets --------------------------------------------------
\* boundary patterns of width n; asymmetric so that swapped arguments are visible
Pat(n, j) ==
  CASE j = 1 -> ZeroBits(n)
    [] j = 2 -> OneBits(n)
    [] j = 3 -> ZeroBits(n - 1) \o <<1>>
    [] j = 4 -> <<1>> \o ZeroBits(n - 1)
    [] j = 5 -> [i \in 1..n |-> IF i % 3 = 1 THEN 1 ELSE 0]
    [] j = 6 -> [i \in 1..n |-> IF i <= n \div 2 THEN 0 ELSE (i % 2)]
    [] j = 7 -> [i \in 1..n |-> IF i % 5 \in {0, 2} THEN 1 ELSE 0]
NPat(n) == IF n = 1 THEN 2 ELSE IF n = 2 THEN 4 ELSE 7
RECURSIVE ArgVal(_, _)
ArgVal(t, j) ==
  IF t.k = "tup" THEN VTup([i \in 1..Len(t.es) |-> ArgVal(t.es[i], j + 3 * i)])
  ELSE IF t.k = "bool" THEN VBool(j % 2 = 0)
  ELSE IF t.n = 1 THEN VU(<<j % 2>>)
  ELSE IF t.n = 2 THEN VU(BitsOfNat(j % 4, 2))
  ELSE IF t.n = 4 /\ j > 7 THEN VU(BitsOfNat(j % 16, 4))
  ELSE VU(Pat(t.n, ((j - 1) % 7) + 1))

\* tuples: index vector (j1, j2, ..) rotating through the patterns; shift amounts get small values too
Tuples(name) ==
  LET s == JetSig(name)
      n == Len(s.args)
      K == IF Thorough THEN 24 ELSE 10
  IN [q \in 1..K |-> [i \in 1..n |-> ArgVal(s.args[i], q * (2 * i - 1) + i)]]

RECURSIVE Perturb(_, _)
Perturb(v, t) ==
  CASE t.k = "bool" -> VBool(~v.bv)
    [] t.k = "u" -> VU([v.bits EXCEPT ![Len(v.bits)] = 1 - @])
    [] t.k = "tup" -> VTup([v.es EXCEPT ![Len(v.es)] = Perturb(v.es[Len(v.es)], t.es[Len(t.es)])])
    [] t.k = "either" -> IF v.k = "vleft" THEN VLeft(Perturb(v.v, t.l)) ELSE VRight(Perturb(v.v, t.r))

SemProgram(name) ==
  LET s == JetSig(name)
      n == Len(s.args)
      tups == Tuples(name)
      pt(q, good) == LET r == JetMeaning(name, tups[q]) IN
                     Extend(EmptyFn, [i \in 1..n |-> <<ArgNames[i], tups[q][i]>>]) @@ ("EXP" :> IF good THEN r ELSE Perturb(r, s.ret))
  IN [items |-> CallProgram(name, TRUE), wdecls |-> SigDecls(name) \o <<<<"EXP", s.ret>>>>, args |-> EmptyFn, tag |-> "jet",
      space |-> [i \in 1..(2 * Len(tups)) |-> pt((i + 1) \div 2, i % 2 = 1)]]

SigProgram(name) ==
  [items |-> CallProgram(name, FALSE), wdecls |-> IF name \in ReservedJets THEN <<>> ELSE SigDecls(name), args |-> EmptyFn,
   tag |-> "jet", space |-> <<>>]

JetSeq == SetToSeq(JetNames)
SemSeq == SetToSeq({j \in ClosedFormJets : HasMeaning(j)})
JtFamilies == {[kind |-> "sig", g |-> g] : g \in 0..15} \cup {[kind |-> "sem", g |-> g] : g \in 0..31}
JtProgramsOf(f) ==
  IF f.kind = "sig" THEN {SigProgram(JetSeq[i]) : i \in {j \in 1..Len(JetSeq) : j % 16 = f.g}}
  ELSE {SemProgram(SemSeq[i]) : i \in {j \in 1..Len(SemSeq) : j % 32 = f.g}}
=============================================================================
