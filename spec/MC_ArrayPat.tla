---------------------------- MODULE MC_ArrayPat -----------------------------
(***************************************************************************)
(* C10 for WIDE patterns: an array (or tuple) pattern of n = 2..9 elements *)
(* re-binds the name `a` at position i and binds `b` at position j (every  *)
(* other position is ignored); the references behind it must denote the    *)
(* elements at exactly those positions, and - when the let sits in an      *)
(* inner block - the outer `a` must be back after the block.  MC_Scoping   *)
(* binds at most three names per pattern; here the position of a name in a *)
(* pattern whose balanced layout is not a plain halving (5, 6, 7, 9) is    *)
(* the subject.                                                            *)
(***************************************************************************)
EXTENDS ProgMC

T8 == TU(8)
Eq8(a, b) == SExpr(AssertE(JetE("eq_8", <<a, b>>)))

APProgram(n, i, j, tuple, inner) ==
  LET ty == IF tuple THEN TTup([k \in 1..n |-> T8]) ELSE TArr(T8, n)
      lit == IF tuple THEN ETuple([k \in 1..n |-> Dec(10 * k + 1)]) ELSE EArray([k \in 1..n |-> Dec(10 * k + 1)])
      names == [k \in 1..n |-> IF k = i THEN PId("a") ELSE IF k = j THEN PId("b") ELSE PIgn]
      pat == IF tuple THEN PTup(names) ELSE PArr(names)
      d0 == SLet(PId("a"), T8, Dec(200))
      bind == SLet(pat, ty, lit)
      uses == <<Eq8(V("a"), Dec(10 * i + 1))>> \o (IF j \in 1..n THEN <<Eq8(V("b"), Dec(10 * j + 1))>> ELSE <<>>)
      items == IF inner
               THEN <<Main(Blk(<<d0, SExpr(Blk(<<bind>> \o uses)), Eq8(V("a"), Dec(200))>>))>>
               ELSE <<Main(Blk(<<d0, bind>> \o uses))>>
  IN [items |-> items, wdecls |-> <<>>, args |-> EmptyFn, space |-> <<EmptyFn>>]

APFamilies == {[n |-> n, tuple |-> t] : n \in 2..9, t \in BOOLEAN}
APProgramsOf(f) ==
  UNION {{APProgram(f.n, i, j, f.tuple, inner) : j \in {0, 1, f.n, (f.n + 1) \div 2} \ {i}, inner \in BOOLEAN} : i \in 1..f.n}
=============================================================================
