----------------------------- MODULE MC_Scoping -----------------------------
(***************************************************************************)
(* C10: binding structures.  All arrangements (bounded) of nested blocks,  *)
(* lets with tuple / array / ignore / nested patterns over the two names   *)
(* a and b, match arms that bind a or b, and calls of functions whose      *)
(* parameters are named a and b.  Every binder binds a distinct constant;  *)
(* the probe (a, b) at the innermost point is the value of the whole       *)
(* expression and is compared with the witness EXP.  The witness points     *)
(* are: the pair the lexical-scoping semantics prescribes (must succeed)    *)
(* and wrong pairs (must fail).                                             *)
(***************************************************************************)
EXTENDS ProgMC

T8 == TU(8)
TP == TTup(<<T8, T8>>)
K(d, j, k) == Dec(16 * d + 4 * j + k + 3)

\* statements available at depth d, position j
Stmts(d, j) ==
  {SLet(PId("a"), T8, K(d, j, 0)),
   SLet(PId("b"), T8, V("a")),
   SLet(PId("a"), T8, V("b")),
   SLet(PTup(<<PId("a"), PId("b")>>), TP, ETuple(<<V("b"), V("a")>>)),
   SLet(PTup(<<PId("b"), PIgn>>), TP, ETuple(<<K(d, j, 0), K(d, j, 1)>>)),
   SLet(PArr(<<PId("b"), PId("a")>>), TArr(T8, 2), EArray(<<K(d, j, 0), V("b")>>)),
   SLet(PTup(<<PId("a"), PTup(<<PId("b"), PIgn>>)>>), TTup(<<T8, TP>>),
        ETuple(<<K(d, j, 1), ETuple(<<K(d, j, 2), V("a")>>)>>)),
   SLet(PIgn, T8, V("a")),
   \* a pattern that re-binds one of the probed names together with an unrelated third name
   SLet(PTup(<<PId("a"), PId("c")>>), TP, ETuple(<<K(d, j, 2), V("a")>>)),
   SLet(PArr(<<PId("c"), PId("b")>>), TArr(T8, 2), EArray(<<V("b"), K(d, j, 3)>>)),
   \* the bindings of an inner block vanish when it ends; its value can escape
   SLet(PId("a"), T8, BlkE(<<SLet(PId("a"), T8, K(d, j, 2)), SLet(PId("b"), T8, V("a"))>>, V("b"))),
   SExpr(Blk(<<SLet(PId("a"), T8, K(d, j, 3)), SLet(PId("b"), T8, K(d, j, 1))>>)),
   \* a binding of another TYPE shadows (inner block) or replaces (same block) the old one: the type checker's
   \* lookup must find the nearest binding too, or a well-typed program is rejected
   SLet(PId("b"), T8, BlkE(<<SLet(PId("a"), TU(16), Dec(256 * (16 * d + 4 * j + 3) + 5))>>,
                           ECall(CJet("leftmost_16_8"), <<V("a")>>))),
   SLet(PId("a"), T8, BlkE(<<SLet(PId("b"), TU(16), Dec(256 * (16 * d + 4 * j + 4) + 6)),
                             SLet(PId("b"), T8, ECall(CJet("rightmost_16_8"), <<V("b")>>))>>, V("b"))),
   \* match arms bind a / b only inside the arm
   SLet(PId("b"), T8, EMatch(V("w"), <<Arm(MLeft("a", T8), V("a")), Arm(MRight("b", T8), V("a"))>>)),
   SLet(PTup(<<PId("a"), PId("b")>>), TP,
        EMatch(V("o"), <<Arm(MSome("b", T8), ETuple(<<V("b"), V("a")>>)), Arm(MNone, ETuple(<<V("b"), V("b")>>))>>)),
   \* the variable of one arm (bound at another type) must not be visible in the sibling arm, which reads the outer a
   SLet(PId("b"), T8, EMatch(V("w2"), <<Arm(MLeft("a", TU(16)), ECall(CJet("leftmost_16_8"), <<V("a")>>)),
                                        Arm(MRight("b", T8), V("a"))>>)),
   SLet(PId("a"), T8, EMatch(V("w2"), <<Arm(MRight("b", T8), V("b")),
                                        Arm(MLeft("b", TU(16)), ECall(CJet("rightmost_16_8"), <<V("b")>>))>>))}

Defs == <<IFn("pa", <<Param("b", T8), Param("a", T8)>>, <<TP>>, BlkE(<<>>, ETuple(<<V("a"), V("b")>>))),
          IFn("pb", <<Param("a", T8), Param("b", T8)>>, <<TP>>,
              BlkE(<<SLet(PId("a"), T8, V("b"))>>, ETuple(<<V("a"), V("b")>>)))>>

\* (the last two probes read a name inside a nested block / a match arm and again right after that scope has ended)
Probes == {ETuple(<<V("a"), V("b")>>), ECall(CFn("pa"), <<V("a"), V("b")>>), ECall(CFn("pb"), <<V("a"), V("b")>>),
           ETuple(<<BlkE(<<SLet(PId("c"), T8, Dec(77))>>, V("a")), V("a")>>),
           ETuple(<<EMatch(V("w"), <<Arm(MLeft("l", T8), V("b")), Arm(MRight("r", T8), V("b"))>>), V("b")>>),
           EMatch(V("w"), <<Arm(MLeft("a", T8), ETuple(<<V("a"), V("b")>>)), Arm(MRight("b", T8), ETuple(<<V("a"), V("b")>>))>>)}

MaxStmts == 2
InnerMax == IF Thorough THEN 2 ELSE 1

RECURSIVE StmtSeqs(_, _, _)
\* statement sequences of length n at depth d (positions from j)
StmtSeqs(d, j, n) == IF n = 0 THEN {<<>>}
                     ELSE {<<s>> \o t : s \in Stmts(d, j), t \in StmtSeqs(d, j + 1, n - 1)}

\* thorough tier: inner blocks of two statements, one sixth of the pairs (which sixth depends on the seed)
PairSeqs(d) == LET s1 == SetToSeq(Stmts(d, 1)) s2 == SetToSeq(Stmts(d, 2))
               IN UNION {{<<s1[i], s2[j]>> : j \in {j2 \in 1..Len(s2) : ((i + 3 * j2 + Seed) % 6) = 0}} : i \in 1..Len(s1)}
InnerSeqs(d, n) == IF n = 2 THEN PairSeqs(d) ELSE StmtSeqs(d, 1, n)

RECURSIVE Bodies(_)
Bodies(d) == IF d = 0 THEN Probes
             ELSE Probes \cup UNION {{BlkE(ss, e) : ss \in InnerSeqs(d, n), e \in Bodies(d - 1)} : n \in 1..InnerMax}

\* family descriptor: the first statement of the outermost block (splits the work among workers)
ScFamilies == {[first |-> s] : s \in Stmts(2, 1)} \cup {[first |-> [k |-> "probe"]]}

WDecls == <<<<"W", TEither(T8, T8)>>, <<"O", TOpt(T8)>>, <<"EXP", TP>>>>
\* w2: Left(300) when W is a Left, Right(payload of W) otherwise (an Either whose two sides have different types)
TW2 == TEither(TU(16), T8)
Pre == <<SLet(PId("w"), TEither(T8, T8), EWit("W")), SLet(PId("o"), TOpt(T8), EWit("O")),
         SLet(PId("w2"), TW2, EMatch(V("w"), <<Arm(MLeft("l", T8), ELeft(Dec(300))), Arm(MRight("r", T8), ERight(V("r")))>>)),
         SLet(PId("a"), T8, Dec(1)), SLet(PId("b"), T8, Dec(2))>>

MkItems(e) == Defs \o <<Main(Blk(Pre \o <<SLet(PId("r"), TP, e), SLet(PId("x"), TP, EWit("EXP"))>> \o Obs(TP, "r", "x")))>>

\* value of e under the reference semantics, for given W and O
ValOf(e, w, o) ==
  LET m == MainCtx(Defs \o <<Main(Blk(<<>>))>>, G0)
      C == [fns |-> m.G.fns, al |-> m.G.al, wit |-> EmptyFn, args |-> EmptyFn, env |-> DummyEnv]
      rho == ("w" :> w) @@ ("o" :> o) @@ ("a" :> VU(BitsOfNat(1, 8))) @@ ("b" :> VU(BitsOfNat(2, 8)))
             @@ ("w2" :> IF w.k = "vleft" THEN VLeft(VU(BitsOfNat(300, 16))) ELSE VRight(w.v))
  IN Ev(e, TP, rho, C)

U8(n) == VU(BitsOfNat(n, 8))
WVals == {VLeft(U8(100)), VRight(U8(101))}
OVals == {VNone, VSome(U8(102))}

\* witness points: for each (W, O): EXP = the prescribed value, the swapped pair, and (1, 2)
SpaceFor(e) ==
  LET pts(w, o) == LET v == ValOf(e, w, o) IN
                   <<("W" :> w) @@ ("O" :> o) @@ ("EXP" :> v),
                     ("W" :> w) @@ ("O" :> o) @@ ("EXP" :> VTup(<<v.es[2], v.es[1]>>)),
                     ("W" :> w) @@ ("O" :> o) @@ ("EXP" :> VTup(<<U8(1), U8(2)>>))>>
  IN Concat([i \in 1..4 |-> LET ws == SetToSeq(WVals) os == SetToSeq(OVals)
                           IN pts(ws[((i - 1) \div 2) + 1], os[((i - 1) % 2) + 1])])

ScProgramsOf(f) ==
  LET bodies == IF f.first.k = "probe" THEN Probes
                ELSE UNION {{BlkE(<<f.first>> \o ss, e) : ss \in StmtSeqs(2, 2, n), e \in Bodies(1)} : n \in 0..(MaxStmts - 1)}
  IN {[items |-> MkItems(e), wdecls |-> WDecls, args |-> EmptyFn, space |-> SpaceFor(e)] : e \in bodies}
=============================================================================
