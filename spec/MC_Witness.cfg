SPECIFICATION Spec
CONSTANTS
  Families <- WFamilies
  ProgramsOf <- WProgramsOf
INVARIANT GeneratedWellFormed
INVARIANT WitnessTypesAsDeclared
INVARIANT CompileCorrect
INVARIANT DebugNeutral
INVARIANT CodegenTotal
INVARIANT Emit
CHECK_DEADLOCK FALSE
