----------------------------- MODULE TraceScopes -----------------------------
(***************************************************************************)
(* Trace validation (implementation -> specification) of the two scope     *)
(* machines, the call tracker and the loop builders.                       *)
(*                                                                         *)
(* The hooks behind the cargo feature `verif` record one event per state   *)
(* change (src/verif.rs).  Each event is matched by one action of this     *)
(* specification; the recorded RESULT of a lookup must be the result the   *)
(* specification computes on its own state:                                 *)
(*                                                                         *)
(*  analysis scope (ast.rs)          reference: innermost-first lookup over *)
(*    a.push a.pop a.enter_main         a stack of frames (C10, C04)        *)
(*    a.leave_main a.insert_var       witnesses: only in main, once (C04,   *)
(*    a.get_var a.insert_wit            C05); parameters: one type (C12);   *)
(*    a.insert_param a.track          tracked calls: consecutive ids, a     *)
(*                                      span is tracked once (C14)          *)
(*  code-generation scope (compile.rs) Codegen.tla: ScopePush / ScopePop /  *)
(*    c.new c.child c.push c.pop        ScopeInsert / ScopeGet - the same   *)
(*    c.insert c.get                    operators MC_* models check against *)
(*                                      the reference semantics             *)
(*  builders                          c.fold: number of doublings for the   *)
(*    c.fold c.for_while                bound; c.for_while: the task stack   *)
(*                                      W(n) of Codegen.tla (FWStack)        *)
(*                                                                         *)
(* Many compilations are concatenated; a `reset` event starts a new one.   *)
(* The trace is accepted when every event is consumed (the driver reads    *)
(* the depth of the search); the first event that no action matches is the *)
(* diagnosis.                                                              *)
(***************************************************************************)
EXTENDS Codegen, Json, IOUtils

Rec == ndJsonDeserialize(IOEnv.TRACE)

VARIABLES l, vstack, isMain, wits, params, nextId, cs
vars == <<l, vstack, isMain, wits, params, nextId, cs>>

Fresh == /\ vstack = <<>> /\ isMain = FALSE /\ wits = {} /\ params = EmptyFn /\ nextId = 0 /\ cs = EmptyFn
Init == l = 1 /\ Fresh

E == Rec[l]
Is(e) == l <= Len(Rec) /\ E.e = e /\ l' = l + 1

\* innermost-first lookup in the stack of frames
RECURSIVE Lookup(_, _)
Lookup(st, x) == IF st = <<>> THEN [found |-> FALSE, ty |-> [k |-> "none"]]
                 ELSE IF x \in DOMAIN Last(st) THEN [found |-> TRUE, ty |-> Last(st)[x]]
                 ELSE Lookup(Front(st), x)

Reset == Is("reset") /\ vstack' = <<>> /\ isMain' = FALSE /\ wits' = {} /\ params' = EmptyFn /\ nextId' = 0 /\ cs' = EmptyFn

APush == Is("a.push") /\ vstack' = Append(vstack, EmptyFn) /\ UNCHANGED <<isMain, wits, params, nextId, cs>>
APop == Is("a.pop") /\ vstack # <<>> /\ vstack' = Front(vstack) /\ UNCHANGED <<isMain, wits, params, nextId, cs>>
AEnterMain == Is("a.enter_main") /\ ~isMain /\ Len(vstack) = 1 /\ isMain' = TRUE /\ UNCHANGED <<vstack, wits, params, nextId, cs>>
ALeaveMain == Is("a.leave_main") /\ isMain /\ vstack = <<>> /\ isMain' = FALSE /\ UNCHANGED <<vstack, wits, params, nextId, cs>>
AInsertVar == /\ Is("a.insert_var") /\ vstack # <<>>
              /\ vstack' = [vstack EXCEPT ![Len(vstack)] = (E.x :> E.ty) @@ @]
              /\ UNCHANGED <<isMain, wits, params, nextId, cs>>
\* the recorded result of the lookup must be the nearest binding (C10)
AGetVar == /\ Is("a.get_var")
           /\ LET r == Lookup(vstack, E.x) IN r.found = E.found /\ (r.found => r.ty = E.ty)
           /\ UNCHANGED <<vstack, isMain, wits, params, nextId, cs>>
\* a witness is accepted only inside main and only once (C04)
AInsertWit == /\ Is("a.insert_wit") /\ isMain /\ E.n \notin wits
              /\ wits' = wits \cup {E.n} /\ UNCHANGED <<vstack, isMain, params, nextId, cs>>
\* all occurrences of a parameter have one type (C12)
AInsertParam == /\ Is("a.insert_param") /\ (E.n \in DOMAIN params => params[E.n] = E.ty)
                /\ params' = (E.n :> E.ty) @@ params /\ UNCHANGED <<vstack, isMain, wits, nextId, cs>>
\* tracked calls get consecutive ids; a call site is tracked once (C14)
ATrack == /\ Is("a.track") /\ E.id = nextId /\ ~E.known
          /\ nextId' = nextId + 1 /\ UNCHANGED <<vstack, isMain, wits, params, cs>>

CNew == /\ (Is("c.new") \/ Is("c.child")) /\ E.sid \notin DOMAIN cs
        /\ cs' = (E.sid :> ScopeChild(E.pat)) @@ cs /\ UNCHANGED <<vstack, isMain, wits, params, nextId>>
CPush == /\ Is("c.push") /\ E.sid \in DOMAIN cs
         /\ cs' = [cs EXCEPT ![E.sid] = ScopePush(@)] /\ UNCHANGED <<vstack, isMain, wits, params, nextId>>
CPop == /\ Is("c.pop") /\ E.sid \in DOMAIN cs /\ Len(cs[E.sid]) > 1
        /\ cs' = [cs EXCEPT ![E.sid] = ScopePop(@)] /\ UNCHANGED <<vstack, isMain, wits, params, nextId>>
CInsert == /\ Is("c.insert") /\ E.sid \in DOMAIN cs
           /\ cs' = [cs EXCEPT ![E.sid] = ScopeInsert(@, E.pat)] /\ UNCHANGED <<vstack, isMain, wits, params, nextId>>
\* the recorded take/drop path must be the one the specification's scope computes
CGet == /\ Is("c.get") /\ E.sid \in DOMAIN cs
        /\ LET p == ScopeGet(cs[E.sid], E.x) IN IF E.found THEN p = E.path ELSE p = NF
        /\ UNCHANGED <<vstack, isMain, wits, params, nextId, cs>>
BFold == /\ Is("c.fold") /\ E.doublings = Log2(E.bound) - 1
         /\ UNCHANGED <<vstack, isMain, wits, params, nextId, cs>>
BForWhile == /\ Is("c.for_while")
             /\ E.stack = [i \in 1..(2 * E.width - 1) |-> IF FWStack(E.width)[i] = "fw0" THEN 0 ELSE 1]
             /\ UNCHANGED <<vstack, isMain, wits, params, nextId, cs>>

Next == \/ Reset \/ APush \/ APop \/ AEnterMain \/ ALeaveMain \/ AInsertVar \/ AGetVar \/ AInsertWit \/ AInsertParam \/ ATrack
        \/ CNew \/ CPush \/ CPop \/ CInsert \/ CGet \/ BFold \/ BForWhile
Spec == Init /\ [][Next]_vars
=============================================================================
