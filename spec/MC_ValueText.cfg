SPECIFICATION Spec
INVARIANT EmitType
INVARIANT EmitVal
INVARIANT EmitMap
CHECK_DEADLOCK FALSE
