SPECIFICATION Spec
CONSTANTS
  Families <- StFamilies
  ProgramsOf <- StProgramsOf

INVARIANT CompileCorrect
INVARIANT DebugNeutral
INVARIANT CodegenTotal
INVARIANT Emit
CHECK_DEADLOCK FALSE
