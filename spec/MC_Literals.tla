----------------------------- MODULE MC_Literals ----------------------------
(***************************************************************************)
(* C11: integer literals denote their mathematical value.                  *)
(* For every width N: decimal 0, 1, 2^N-1 (accepted), 2^N, 2^N+1, an       *)
(* 80-digit number (rejected), fixed large samples, underscore placements, *)
(* leading zeros (also 70 of them), empty-digit forms; binary with N,      *)
(* N-1, N+1 digits and underscores; hexadecimal with N/4, N/4-1, N/4+1     *)
(* digits, upper / lower case, underscores, at widths below 8; hex         *)
(* literals at [u8; n].  Each literal is the right-hand side of a let at   *)
(* uN; the program compares it (Observe) with the witness EXP, whose       *)
(* points are the value Literals.tla assigns (must succeed) and that value *)
(* with one bit flipped (must fail).  Rejected literals must be rejected.  *)
(***************************************************************************)
EXTENDS ProgMC, LitTable

Widths == <<1, 2, 4, 8, 16, 32, 64, 128, 256>>
DChr(d) == DigitChars[d + 1]
LastDigit(s) == DigitVal(Last(s))
MaxDigits(n) == LET p == Pow2Digits(n) IN Front(p) \o <<DChr(LastDigit(p) - 1)>>
Over1Digits(n) == LET p == Pow2Digits(n) IN Front(p) \o <<DChr(LastDigit(p) + 1)>>
Big80 == [i \in 1..80 |-> DChr(((i * 7) % 9) + 1)]
Zeros(k) == Rep("0", k)

\* underscore placements of a digit string s
Unders(s) == {<<"_">> \o s, s \o <<"_">>, <<Head(s), "_">> \o Tail(s), <<Head(s), "_", "_">> \o Tail(s),
              <<"_", "_">> \o s \o <<"_">>}

DecForms(n) ==
  LET mx == MaxDigits(n) IN
  {<<"0">>, <<"1">>, mx, Pow2Digits(n), Over1Digits(n), Big80, <<"_">>, <<"_", "_">>,
   Zeros(2) \o mx, Zeros(70) \o mx, Zeros(3), Zeros(1) \o Pow2Digits(n), <<"0", "_", "0">>}
  \cup Unders(mx) \cup Unders(Pow2Digits(n))
  \* same number of digits as 2^N but a larger leading digit (k 0..0, k 9..9), all nines, 2^N with a digit bumped
  \cup {<<DChr(k)>> \o Zeros(Len(mx) - 1) : k \in (LastDigit(<<Head(mx)>>) + 1)..9}
  \cup {<<DChr(k)>> \o Rep("9", Len(mx) - 1) : k \in LastDigit(<<Head(mx)>>)..9}
  \cup {[mx EXCEPT ![i] = "9"] : i \in {j \in 1..Len(mx) : j % 5 = 2}}
  \cup {[mx EXCEPT ![i] = "0"] : i \in {j \in 1..Len(mx) : j % 7 = 3}}
  \cup {Samples[i][2] : i \in {j \in 1..Len(Samples) : Samples[j][1] = n}}
  \cup {Samples[i][2] : i \in {j \in 1..Len(Samples) : Samples[j][1] = 2 * n}}      \* values of the next width: too big

Alt(n) == [i \in 1..n |-> IF i % 2 = 1 THEN "1" ELSE "0"]
\* bit patterns whose bytes differ from each other (byte i holds the number i): byte order and bit order are visible
ByteCount(n) == [i \in 1..n |-> IF BitsOfNat((((i - 1) \div 8) + 1) % 256, 8)[((i - 1) % 8) + 1] = 1 THEN "1" ELSE "0"]
BinForms(n) ==
  {Rep("1", n), Rep("0", n), Alt(n), <<"_">>, <<"0">> \o Alt(n), Rep("1", n) \o <<"_">>, <<"_">> \o Alt(n),
   <<"1">> \o Rep("0", n - 1), Rep("0", n - 1) \o <<"1">>, ByteCount(n), <<Head(ByteCount(n)), "_">> \o Tail(ByteCount(n))}
  \cup (IF n > 1 THEN {Tail(Alt(n)), <<"1", "_">> \o Tail(Alt(n)), Rep("1", n - 1), Rep("1", 2 * n)} ELSE {<<"1", "1">>})

HexPat(k, upper) == [i \in 1..k |-> IF upper THEN <<"A", "0", "F", "3", "C", "9", "E", "1">>[(i % 8) + 1]
                                     ELSE <<"a", "0", "f", "3", "c", "9", "e", "1">>[(i % 8) + 1]]
HexForms(n) ==
  LET k == IF n >= 4 THEN n \div 4 ELSE 1 IN
  {HexPat(k, FALSE), HexPat(k, TRUE), Rep("f", k), Rep("0", k), <<"_">>, HexPat(k, FALSE) \o <<"_">>, <<"_">> \o HexPat(k, TRUE),
   HexPat(k + 1, FALSE), <<"0">> \o HexPat(k, FALSE), Rep("F", 2 * k)}
  \cup (IF k > 1 THEN {HexPat(k - 1, FALSE), <<Head(HexPat(k, TRUE)), "_">> \o Tail(HexPat(k, TRUE)),
                       \* hexadecimal digits that look like a radix prefix: 0x0b.., 0x0B.., 0x0x is not a digit string
                       <<"0", "b">> \o SubSeq(HexPat(k, FALSE), 3, k), <<"0", "B">> \o SubSeq(HexPat(k, TRUE), 3, k),
                       <<"b", "0">> \o SubSeq(HexPat(k, FALSE), 3, k)} ELSE {})

\* byte arrays
ByteHex(m) == [i \in 1..(2 * m) |-> HexChars[((7 * i + 3) % 16) + 1]]
ArrForms == UNION {{[t |-> TArr(TU(8), m), e |-> EHex(s)] : s \in {ByteHex(m), ByteHex(m + 1), <<Head(ByteHex(m)), "_">> \o Tail(ByteHex(m))}}
                     : m \in {1, 2, 3, 5}}
            \cup {[t |-> TArr(TU(8), 2), e |-> EHex(<<"a", "b", "c">>)],
                  [t |-> TArr(TU(8), 32), e |-> EHex(ByteHex(32))], [t |-> TArr(TU(16), 1), e |-> EHex(<<"a", "b", "c", "d">>)],
                  [t |-> TArr(TU(4), 2), e |-> EHex(<<"a", "b">>)], [t |-> TTup(<<TU(8), TU(8)>>), e |-> EHex(<<"a", "b", "c", "d">>)],
                  [t |-> TBool, e |-> EDec(<<"1">>)], [t |-> TTup(<<TU(8)>>), e |-> EDec(<<"1">>)], [t |-> TOpt(TU(8)), e |-> EDec(<<"1">>)]}

LitFamilies == {[n |-> Widths[i], form |-> f] : i \in 1..Len(Widths), f \in {"dec", "bin", "hex", "table"}} \cup {[n |-> 0, form |-> "arr"]}

FlipFirst(v, ty) == IF ty.k = "u" THEN VU([v.bits EXCEPT ![Len(v.bits)] = 1 - @])
                    ELSE IF ty.k = "arr" /\ ty.n > 0 THEN VArr([v.es EXCEPT ![ty.n] = VU([v.es[ty.n].bits EXCEPT ![8] = 1 - @])])
                    ELSE v

Accepted(e, ty) == ~IsErr(An(e, ty, G0))
LitValue(e, ty) == Ev(e, ty, EmptyFn, [fns |-> EmptyFn, al |-> EmptyFn, wit |-> EmptyFn, args |-> EmptyFn, env |-> DummyEnv])

Mk(e, ty) ==
  [items |-> ObsProgram(<<>>, <<>>, <<>>, ty, e), wdecls |-> ObsWitDecls(<<>>, ty), args |-> EmptyFn, tag |-> "literal",
   space |-> IF Accepted(e, ty)
             THEN LET v == LitValue(e, ty) IN <<("EXP" :> v), ("EXP" :> FlipFirst(v, ty))>>
             ELSE <<>>]

\* ---- the reference layer's own consistency: Literals.tla's big-number arithmetic against the
\*      generated table; evaluated once per width, in the action of the "table" family -------------
TableOKFor(n) ==
  /\ \A i \in 1..Len(Samples) : Samples[i][1] = n => DecValue(Samples[i][2], n) = Samples[i][3]
  /\ DecValue(MaxDigits(n), n) = OneBits(n)
  /\ DecValue(Pow2Digits(n), n) = REJECT
  /\ DecValue(Over1Digits(n), n) = REJECT
  /\ DecValue(Zeros(70) \o MaxDigits(n), n) = OneBits(n)
  /\ DecValue(<<"_">>, n) = REJECT
  /\ DecValue(Big80, n) = REJECT
LitTableOK == phase = "prog" => prog.tag # "table-broken"

LitProgramsOf(f) ==
  CASE f.form = "dec" -> {Mk(EDec(s), TU(f.n)) : s \in DecForms(f.n)}
    [] f.form = "bin" -> {Mk(EBin(s), TU(f.n)) : s \in BinForms(f.n)}
    [] f.form = "hex" -> {Mk(EHex(s), TU(f.n)) : s \in HexForms(f.n)}
    [] f.form = "arr" -> {Mk(a.e, a.t) : a \in ArrForms}
    [] f.form = "table" -> {[items |-> <<Main(Blk(<<>>))>>, wdecls |-> <<>>, args |-> EmptyFn, space |-> <<EmptyFn>>,
                             tag |-> IF TableOKFor(f.n) THEN "table-ok" ELSE "table-broken"]}
=============================================================================
