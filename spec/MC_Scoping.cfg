SPECIFICATION Spec
CONSTANTS
  Families <- ScFamilies
  ProgramsOf <- ScProgramsOf
INVARIANT GeneratedWellFormed
INVARIANT WitnessTypesAsDeclared
INVARIANT CompileCorrect
INVARIANT DebugNeutral
INVARIANT CodegenTotal
INVARIANT Emit
CHECK_DEADLOCK FALSE
