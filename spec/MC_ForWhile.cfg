SPECIFICATION Spec
CONSTANTS
  Families <- FWFamilies
  ProgramsOf <- FWProgramsOf
INVARIANT GeneratedWellFormed
INVARIANT WitnessTypesAsDeclared
INVARIANT CompileCorrect
INVARIANT DebugNeutral
INVARIANT CodegenTotal
INVARIANT Emit
CHECK_DEADLOCK FALSE
