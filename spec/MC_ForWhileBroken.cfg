SPECIFICATION Spec
CONSTANTS
  ForWhile0 <- ForWhile0Swapped
  Families <- FWFamilies
  ProgramsOf <- FWProgramsOf
INVARIANT GeneratedWellFormed
INVARIANT WitnessTypesAsDeclared
INVARIANT CompileCorrect
INVARIANT DebugNeutral
INVARIANT CodegenTotal
CHECK_DEADLOCK FALSE
