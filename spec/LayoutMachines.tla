--------------------------- MODULE LayoutMachines ---------------------------
(***************************************************************************)
(* Implementation-shaped layer for src/array.rs: the four iterative        *)
(* explicit-stack algorithms that realise the documented layout.           *)
(*                                                                         *)
(*   BTreeSlice::fold   post-order fold of a slice viewed as balanced tree *)
(*                      (split: half = n - next_power_of_two(n)/2)         *)
(*   Unfolder::unfold   inverse: n leaves out of a tree                    *)
(*   Partition::fold    list blocks of sizes bound/2, bound/4, ..., 1      *)
(*   Combiner::unfold   inverse                                            *)
(*                                                                         *)
(* One action per loop iteration of the Rust code.  Leaves are integers,   *)
(* products are <<"P", l, r>>, blocks are <<"N">> (empty) or <<"S", t>>.    *)
(* The properties compare every terminated run with the reference layout   *)
(* of Types.tla (BalFold / documented list layout).                        *)
(***************************************************************************)
EXTENDS Types

VARIABLES mach,   \* which algorithm this behaviour runs
          n,      \* number of elements
          bound,  \* list bound (partition machines) or 0
          todo,   \* explicit work stack (top = last)
          out,    \* output stack / output vector
          done

vars == <<mach, n, bound, todo, out, done>>

Elems(k) == [i \in 1..k |-> i]

\* the split the code computes (BTreeSlice::as_node, Unfolder::unfold)
CodeHalf(k) == k - NextPow2(k) \div 2

\* ---- BTreeSlice::fold ----------------------------------------------------------
BTInit(k) == /\ mach = "btree" /\ n = k /\ bound = 0 /\ done = FALSE /\ out = <<>>
             /\ todo = IF k = 0 THEN <<>> ELSE <<[t |-> "visit", lo |-> 1, hi |-> k]>>
BTStep ==
  /\ mach = "btree" /\ ~done /\ todo # <<>>
  /\ LET top == Last(todo) rest == Front(todo) IN
     IF top.t = "visit"
     THEN LET k == top.hi - top.lo + 1 IN
          IF k = 1
          THEN /\ out' = Append(out, top.lo) /\ todo' = rest
          ELSE LET h == CodeHalf(k) IN
               /\ todo' = rest \o <<[t |-> "combine"],
                                    [t |-> "visit", lo |-> top.lo + h, hi |-> top.hi],
                                    [t |-> "visit", lo |-> top.lo, hi |-> top.lo + h - 1]>>
               /\ out' = out
     ELSE LET r == out[Len(out)] l == out[Len(out) - 1] IN
          /\ out' = Append(SubSeq(out, 1, Len(out) - 2), <<"P", l, r>>)
          /\ todo' = rest
  /\ UNCHANGED <<mach, n, bound, done>>
BTFinish == /\ mach = "btree" /\ ~done /\ todo = <<>> /\ done' = TRUE /\ UNCHANGED <<mach, n, bound, todo, out>>

\* ---- Unfolder::unfold (input: the reference tree over 1..n) ---------------------
UFInit(k) == /\ mach = "unfold" /\ n = k /\ bound = 0 /\ done = FALSE /\ out = <<>>
             /\ todo = <<[tree |-> BalFold(Elems(k), "val"), k |-> k]>>
UFStep ==
  /\ mach = "unfold" /\ ~done /\ todo # <<>>
  /\ LET top == Last(todo) rest == Front(todo) IN
     CASE top.k = 0 -> /\ todo' = rest /\ out' = out
       [] top.k = 1 -> /\ todo' = rest /\ out' = Append(out, top.tree)
       [] OTHER -> LET h == CodeHalf(top.k) IN
                   /\ todo' = rest \o <<[tree |-> top.tree[3], k |-> top.k - h],
                                        [tree |-> top.tree[2], k |-> h]>>
                   /\ out' = out
  /\ UNCHANGED <<mach, n, bound, done>>
UFFinish == /\ mach = "unfold" /\ ~done /\ todo = <<>> /\ done' = TRUE /\ UNCHANGED <<mach, n, bound, todo, out>>

\* ---- Partition::fold --------------------------------------------------------------
\* node: [t |-> "leaf", lo, hi, size] | [t |-> "parent", lo, hi, bound] ; slice = lo..hi (hi = lo-1: empty)
FromSlice(lo, hi, b) == IF b = 2 THEN [t |-> "leaf", lo |-> lo, hi |-> hi, size |-> 1]
                        ELSE [t |-> "parent", lo |-> lo, hi |-> hi, b |-> b]
PFInit(k, b) == /\ mach = "partition" /\ n = k /\ bound = b /\ done = FALSE /\ out = <<>>
                /\ todo = <<[t |-> "visit", node |-> FromSlice(1, k, b)]>>
Block(lo, hi) == IF hi < lo THEN <<"N">> ELSE <<"S", BalFold([i \in 1..(hi - lo + 1) |-> lo + i - 1], "val")>>
PFStep ==
  /\ mach = "partition" /\ ~done /\ todo # <<>>
  /\ LET top == Last(todo) rest == Front(todo) IN
     IF top.t = "visit"
     THEN LET nd == top.node IN
          IF nd.t = "leaf"
          THEN /\ out' = Append(out, Block(nd.lo, nd.hi)) /\ todo' = rest
          ELSE LET sb == nd.b \div 2
                   len == nd.hi - nd.lo + 1
                   l == IF len < sb THEN [t |-> "leaf", lo |-> nd.lo, hi |-> nd.lo - 1, size |-> sb]
                        ELSE [t |-> "leaf", lo |-> nd.lo, hi |-> nd.lo + sb - 1, size |-> sb]
                   r == IF len < sb THEN FromSlice(nd.lo, nd.hi, sb) ELSE FromSlice(nd.lo + sb, nd.hi, sb)
               IN /\ todo' = rest \o <<[t |-> "combine"], [t |-> "visit", node |-> r], [t |-> "visit", node |-> l]>>
                  /\ out' = out
     ELSE LET r == out[Len(out)] l == out[Len(out) - 1] IN
          /\ out' = Append(SubSeq(out, 1, Len(out) - 2), <<"P", l, r>>)
          /\ todo' = rest
  /\ UNCHANGED <<mach, n, bound, done>>
PFFinish == /\ mach = "partition" /\ ~done /\ todo = <<>> /\ done' = TRUE /\ UNCHANGED <<mach, n, bound, todo, out>>

\* reference: the documented list layout over element ids, with the same block encoding
RECURSIVE RefPartition(_, _, _)
RefPartition(lo, hi, b) ==
  IF b = 2 THEN Block(lo, hi)
  ELSE LET h == b \div 2 IN
       IF hi - lo + 1 >= h THEN <<"P", Block(lo, lo + h - 1), RefPartition(lo + h, hi, h)>>
       ELSE <<"P", <<"N">>, RefPartition(lo, hi, h)>>

\* ---- Combiner::unfold (input: reference partition) -----------------------------------
CBInit(k, b) == /\ mach = "combine" /\ n = k /\ bound = b /\ done = FALSE /\ out = <<>>
                /\ todo = <<[part |-> RefPartition(1, k, b), b |-> b]>>
BlockElems(blk, size) == IF blk[1] = "N" THEN <<>> ELSE UnBal(blk[2], size)
CBStep ==
  /\ mach = "combine" /\ ~done /\ todo # <<>>
  /\ LET top == Last(todo) IN
     IF top.b > 2
     THEN LET sb == top.b \div 2 IN
          /\ out' = out \o BlockElems(top.part[2], sb)
          /\ todo' = <<[part |-> top.part[3], b |-> sb]>>
     ELSE /\ out' = out \o BlockElems(top.part, 1)
          /\ todo' = <<>>
  /\ UNCHANGED <<mach, n, bound, done>>
CBFinish == /\ mach = "combine" /\ ~done /\ todo = <<>> /\ done' = TRUE /\ UNCHANGED <<mach, n, bound, todo, out>>

Next == BTStep \/ BTFinish \/ UFStep \/ UFFinish \/ PFStep \/ PFFinish \/ CBStep \/ CBFinish

\* ---- properties (the code's algorithms realise the documented layout) -------------
BTreeCorrect == (mach = "btree" /\ done) => out = (IF n = 0 THEN <<>> ELSE <<BalFold(Elems(n), "val")>>)
UnfoldCorrect == (mach = "unfold" /\ done) => out = Elems(n)
PartitionCorrect == (mach = "partition" /\ done) => out = <<RefPartition(1, n, bound)>>
CombineCorrect == (mach = "combine" /\ done) => out = Elems(n)
\* the split never produces an empty side (debug_assert in as_node)
SplitProper == \A i \in DOMAIN todo :
                 (mach = "btree" /\ todo[i].t = "visit") => todo[i].lo <= todo[i].hi
=============================================================================
