-------------------------- MODULE MC_ScopingBroken --------------------------
(* Negative control: the code-generation lookup searches the RIGHT component  *)
(* of a product pattern first (the oldest binding wins).  TLC must report a   *)
(* violation of CompileCorrect - otherwise the invariant says nothing.        *)
EXTENDS MC_Scoping
RECURSIVE PathRightFirst(_, _)
PathRightFirst(bp, x) ==
  CASE bp.k = "pid" -> IF bp.x = x THEN <<>> ELSE NF
    [] bp.k = "pign" -> NF
    [] bp.k = "pprod" -> LET r == PathRightFirst(bp.b, x) IN
                         IF r # NF THEN <<1>> \o r
                         ELSE LET l == PathRightFirst(bp.a, x) IN IF l # NF THEN <<0>> \o l ELSE NF
=============================================================================
