------------------------------- MODULE Syntax -------------------------------
(***************************************************************************)
(* Abstract syntax of Simfony programs (parse-tree level, i.e. before      *)
(* alias resolution) and their concrete syntax as token sequences          *)
(* (src/minimal.pest, book/src/*.md).                                      *)
(*                                                                         *)
(* A token is a string, or a sequence of pieces that are written without   *)
(* white space between them (e.g. <<"witness::", "A">>).  Tokens are        *)
(* separated by a layout-dependent separator chosen by the harness.         *)
(***************************************************************************)
EXTENDS Types

\* ---- expressions ----------------------------------------------------------
EBool(b) == [k |-> "bool", bv |-> b]
EDec(s) == [k |-> "dec", s |-> s]        \* s: sequence of pieces "0".."9", "_"
EBin(s) == [k |-> "bin", s |-> s]        \* pieces "0", "1", "_"      (after 0b)
EHex(s) == [k |-> "hex", s |-> s]        \* pieces "0".."9","a".."f","A".."F","_" (after 0x)
EWit(n) == [k |-> "wit", n |-> n]
EParam(n) == [k |-> "param", n |-> n]
EVar(x) == [k |-> "var", x |-> x]
EParen(e) == [k |-> "paren", e |-> e]
ETuple(es) == [k |-> "tuple", es |-> es]
EArray(es) == [k |-> "array", es |-> es]
EList(es) == [k |-> "list", es |-> es]
ELeft(e) == [k |-> "left", e |-> e]
ERight(e) == [k |-> "right", e |-> e]
ENone == [k |-> "none"]
ESome(e) == [k |-> "some", e |-> e]
ECall(f, args) == [k |-> "call", f |-> f, args |-> args]
\* arms: sequence of two [p |-> match pattern, e |-> expression] in source order
EMatch(s, arms) == [k |-> "match", s |-> s, arms |-> arms]
\* fin: <<>> or <<e>>
EBlock(ss, fin) == [k |-> "block", ss |-> ss, fin |-> fin]
EUnit == ETuple(<<>>)

\* ---- call names -----------------------------------------------------------
CJet(n) == [k |-> "jet", n |-> n]
CUnwrapLeft(t) == [k |-> "unwrap_left", t |-> t]
CUnwrapRight(t) == [k |-> "unwrap_right", t |-> t]
CIsNone(t) == [k |-> "is_none", t |-> t]
CUnwrap == [k |-> "unwrap"]
CAssert == [k |-> "assert"]
CPanic == [k |-> "panic"]
CDbg == [k |-> "dbg"]
CCast(t) == [k |-> "cast", t |-> t]
CFn(n) == [k |-> "fn", n |-> n]
CFold(n, b) == [k |-> "fold", n |-> n, b |-> b]
CForWhile(n) == [k |-> "for_while", n |-> n]

\* ---- patterns -----------------------------------------------------------------
PId(x) == [k |-> "id", x |-> x]
PIgn == [k |-> "ign"]
PTup(es) == [k |-> "ptup", es |-> es]
PArr(es) == [k |-> "parr", es |-> es]

MLeft(x, t) == [k |-> "mleft", x |-> x, t |-> t]
MRight(x, t) == [k |-> "mright", x |-> x, t |-> t]
MNone == [k |-> "mnone"]
MSome(x, t) == [k |-> "msome", x |-> x, t |-> t]
MFalse == [k |-> "mfalse"]
MTrue == [k |-> "mtrue"]
Arm(p, e) == [p |-> p, e |-> e]

\* ---- statements, items ---------------------------------------------------------
SLet(p, t, e) == [k |-> "let", p |-> p, t |-> t, e |-> e]
SExpr(e) == [k |-> "expr", e |-> e]

IAlias(name, t) == [k |-> "alias", name |-> name, t |-> t]
\* params: sequence of [x |-> id, t |-> type];  ret: <<>> or <<type>>;  body: a block expression
IFn(name, params, ret, body) == [k |-> "fn", name |-> name, params |-> params, ret |-> ret, body |-> body]
IMod == [k |-> "mod"]
Param(x, t) == [x |-> x, t |-> t]

Main(body) == IFn("main", <<>>, <<>>, body)

\* ---- literal helpers -------------------------------------------------------------
DigitChars == <<"0", "1", "2", "3", "4", "5", "6", "7", "8", "9">>
RECURSIVE DecPieces(_)
DecPieces(n) == IF n < 10 THEN <<DigitChars[n + 1]>> ELSE Append(DecPieces(n \div 10), DigitChars[(n % 10) + 1])
\* decimal literal of a small natural number
Dec(n) == EDec(DecPieces(n))
HexChars == <<"0", "1", "2", "3", "4", "5", "6", "7", "8", "9", "a", "b", "c", "d", "e", "f">>
BinLit(bits) == EBin([i \in 1..Len(bits) |-> DigitChars[bits[i] + 1]])
HexLit(bits) == EHex([i \in 1..(Len(bits) \div 4) |-> HexChars[NatOfBits(SubSeq(bits, 4 * i - 3, 4 * i)) + 1]])

\* ---- concrete syntax ------------------------------------------------------------
Commas(tss) == Join(tss, <<",">>)

RECURSIVE TokT(_)
TokT(t) ==
  CASE t.k = "bool" -> <<"bool">>
    [] t.k = "u" -> <<<<"u", ToString(t.n)>>>>
    [] t.k = "tup" -> IF Len(t.es) = 1 THEN <<"(">> \o TokT(t.es[1]) \o <<",", ")">>
                      ELSE <<"(">> \o Commas([i \in 1..Len(t.es) |-> TokT(t.es[i])]) \o <<")">>
    [] t.k = "arr" -> <<"[">> \o TokT(t.e) \o <<";", ToString(t.n), "]">>
    [] t.k = "list" -> <<"List<">> \o TokT(t.e) \o <<",", ToString(t.b), ">">>
    [] t.k = "opt" -> <<"Option<">> \o TokT(t.e) \o <<">">>
    [] t.k = "either" -> <<"Either<">> \o TokT(t.l) \o <<",">> \o TokT(t.r) \o <<">">>
    [] t.k = "alias" -> <<t.name>>
    [] t.k = "builtin" -> <<t.name>>

RECURSIVE TokP(_)
TokP(p) ==
  CASE p.k = "id" -> <<p.x>>
    [] p.k = "ign" -> <<"_">>
    [] p.k = "ptup" -> IF Len(p.es) = 1 THEN <<"(">> \o TokP(p.es[1]) \o <<",", ")">>
                       ELSE <<"(">> \o Commas([i \in 1..Len(p.es) |-> TokP(p.es[i])]) \o <<")">>
    [] p.k = "parr" -> <<"[">> \o Commas([i \in 1..Len(p.es) |-> TokP(p.es[i])]) \o <<"]">>

TokMP(p) ==
  CASE p.k = "mleft" -> <<"Left(", p.x, ":">> \o TokT(p.t) \o <<")">>
    [] p.k = "mright" -> <<"Right(", p.x, ":">> \o TokT(p.t) \o <<")">>
    [] p.k = "mnone" -> <<"None">>
    [] p.k = "msome" -> <<"Some(", p.x, ":">> \o TokT(p.t) \o <<")">>
    [] p.k = "mfalse" -> <<"false">>
    [] p.k = "mtrue" -> <<"true">>

TokCallName(f) ==
  CASE f.k = "jet" -> <<<<"jet::", f.n>>>>
    [] f.k = "unwrap_left" -> <<"unwrap_left::<">> \o TokT(f.t) \o <<">">>
    [] f.k = "unwrap_right" -> <<"unwrap_right::<">> \o TokT(f.t) \o <<">">>
    [] f.k = "is_none" -> <<"is_none::<">> \o TokT(f.t) \o <<">">>
    [] f.k = "unwrap" -> <<"unwrap">>
    [] f.k = "assert" -> <<"assert!">>
    [] f.k = "panic" -> <<"panic!">>
    [] f.k = "dbg" -> <<"dbg!">>
    [] f.k = "cast" -> <<"<">> \o TokT(f.t) \o <<">::into">>
    [] f.k = "fn" -> <<f.n>>
    [] f.k = "fold" -> <<"fold::<", f.n, ",", ToString(f.b), ">">>
    [] f.k = "for_while" -> <<"for_while::<", f.n, ">">>

RECURSIVE TokE(_)
RECURSIVE TokS(_)
TokS(s) ==
  CASE s.k = "let" -> <<"let">> \o TokP(s.p) \o <<":">> \o TokT(s.t) \o <<"=">> \o TokE(s.e)
    [] s.k = "expr" -> TokE(s.e)

TokE(e) ==
  CASE e.k = "bool" -> <<IF e.bv THEN "true" ELSE "false">>
    [] e.k = "dec" -> <<e.s>>
    [] e.k = "bin" -> <<<<"0b">> \o e.s>>
    [] e.k = "hex" -> <<<<"0x">> \o e.s>>
    [] e.k = "wit" -> <<<<"witness::", e.n>>>>
    [] e.k = "param" -> <<<<"param::", e.n>>>>
    [] e.k = "var" -> <<e.x>>
    [] e.k = "paren" -> <<"(">> \o TokE(e.e) \o <<")">>
    [] e.k = "tuple" -> IF Len(e.es) = 1 THEN <<"(">> \o TokE(e.es[1]) \o <<",", ")">>
                        ELSE <<"(">> \o Commas([i \in 1..Len(e.es) |-> TokE(e.es[i])]) \o <<")">>
    [] e.k = "array" -> <<"[">> \o Commas([i \in 1..Len(e.es) |-> TokE(e.es[i])]) \o <<"]">>
    [] e.k = "list" -> <<"list![">> \o Commas([i \in 1..Len(e.es) |-> TokE(e.es[i])]) \o <<"]">>
    [] e.k = "left" -> <<"Left(">> \o TokE(e.e) \o <<")">>
    [] e.k = "right" -> <<"Right(">> \o TokE(e.e) \o <<")">>
    [] e.k = "none" -> <<"None">>
    [] e.k = "some" -> <<"Some(">> \o TokE(e.e) \o <<")">>
    [] e.k = "call" -> TokCallName(e.f) \o <<"(">> \o Commas([i \in 1..Len(e.args) |-> TokE(e.args[i])]) \o <<")">>
    [] e.k = "match" -> <<"match">> \o TokE(e.s) \o <<"{">>
                        \o TokMP(e.arms[1].p) \o <<"=>">> \o TokE(e.arms[1].e) \o <<",">>
                        \o TokMP(e.arms[2].p) \o <<"=>">> \o TokE(e.arms[2].e) \o <<",", "}">>
    [] e.k = "block" -> <<"{">> \o Concat([i \in 1..Len(e.ss) |-> TokS(e.ss[i]) \o <<";">>])
                        \o (IF e.fin = <<>> THEN <<>> ELSE TokE(e.fin[1])) \o <<"}">>

TokItem(it) ==
  CASE it.k = "alias" -> <<"type", it.name, "=">> \o TokT(it.t) \o <<";">>
    [] it.k = "fn" -> <<"fn", it.name, "(">>
                      \o Commas([i \in 1..Len(it.params) |-> <<it.params[i].x, ":">> \o TokT(it.params[i].t)])
                      \o <<")">> \o (IF it.ret = <<>> THEN <<>> ELSE <<"->">> \o TokT(it.ret[1])) \o TokE(it.body)
    [] it.k = "mod" -> <<"mod", "witness", "{", "}">>

TokProg(items) == Concat([i \in 1..Len(items) |-> TokItem(items[i])])
=============================================================================
