------------------------------ MODULE MC_Names ------------------------------
(***************************************************************************)
(* C17: names are opaque.  One program template that uses a name in every  *)
(* naming role: type alias (definition and use), function (definition,     *)
(* call, fold and for_while argument), function parameter, let-pattern     *)
(* variable (plain and inside a tuple pattern), variable in expression     *)
(* position, match-arm variable, witness name, parameter name.  For every  *)
(* identifier of NameTable.tla and every role, the program with that       *)
(* identifier in that role must be accepted and behave like the base       *)
(* program: the model evaluates every renamed program itself (names are    *)
(* plain strings for Static.tla / Dynamic.tla).  Other meaning-preserving   *)
(* rewrites (alias inlined, extra parentheses, `-> ()`, block arms) are     *)
(* the `alt` program of each case: model invariant SubstEquivalent.         *)
(***************************************************************************)
EXTENDS ProgMC, NameTable

T8 == TU(8)
Roles == {"alias", "fn", "foldfn", "loopfn", "param", "var", "tupvar", "armvar", "witness", "parameter", "scrutvar"}
Default(role) ==
  CASE role = "alias" -> "Byte" [] role = "fn" -> "ident" [] role = "foldfn" -> "step" [] role = "loopfn" -> "body"
    [] role = "param" -> "arg" [] role = "var" -> "first" [] role = "tupvar" -> "second" [] role = "armvar" -> "inner"
    [] role = "witness" -> "W" [] role = "parameter" -> "P" [] role = "scrutvar" -> "flag"

\* nm: role -> name ; inl: alias written out, paren: extra parentheses, unit: `-> ()`, blk: block arms
Template(nm, inl, paren, unit, blk) ==
  LET AL == IF inl THEN T8 ELSE TAlias(nm["alias"])
      par(e) == IF paren THEN EParen(e) ELSE e
      arm(e) == IF blk THEN BlkE(<<>>, e) ELSE e
  IN <<IAlias(nm["alias"], T8),
       IFn(nm["fn"], <<Param(nm["param"], AL)>>, <<AL>>, BlkE(<<>>, par(V(nm["param"])))),
       IFn(nm["foldfn"], <<Param("e", T8), Param(nm["param"], T8)>>, <<T8>>, BlkE(<<>>, V(nm["param"]))),
       IFn(nm["loopfn"], <<Param(nm["param"], T8), Param("c", T8), Param("i", TU(1))>>, <<TEither(T8, T8)>>,
           BlkE(<<>>, ERight(V(nm["param"])))),
       IFn("main", <<>>, IF unit THEN <<TUnit>> ELSE <<>>,
           Blk(<<SLet(PId(nm["var"]), AL, EWit(nm["witness"])),
                 SLet(PTup(<<PId(nm["tupvar"]), PIgn>>), TTup(<<T8, T8>>), ETuple(<<par(V(nm["var"])), EParam(nm["parameter"])>>)),
                 SLet(PId("m"), T8, EMatch(ESome(V(nm["tupvar"])),
                                           <<Arm(MNone, arm(Dec(0))),
                                             Arm(MSome(nm["armvar"], AL), arm(ECall(CFn(nm["fn"]), <<V(nm["armvar"])>>)))>>)),
                 \* the name as match scrutinee (followed by `{`), as array element, as final expression of a block,
                 \* in a cast with the alias as source type
                 SLet(PId(nm["scrutvar"]), TBool, EBool(TRUE)),
                 SLet(PId("k"), T8, EMatch(V(nm["scrutvar"]), <<Arm(MFalse, arm(Dec(0))), Arm(MTrue, arm(V("m")))>>)),
                 SLet(PArr(<<PId("k1"), PIgn>>), TArr(T8, 2), EArray(<<V(nm["var"]), BlkE(<<>>, V(nm["var"]))>>)),
                 SLet(PId("k2"), TTup(<<TU(4), TU(4)>>), CastE(AL, V("k1"))),
                 SLet(PId("m"), T8, V("k")),
                 SLet(PId("s"), T8, ECall(CFold(nm["foldfn"], 2), <<EList(<<Dec(1)>>), V("m")>>)),
                 SLet(PId("t"), TEither(T8, T8), ECall(CForWhile(nm["loopfn"]), <<V("s"), Dec(0)>>)),
                 SLet(PId("r"), T8, Call1(CUnwrapRight(AL), V("t"))),
                 SLet(PId("n1"), TBool, Call1(CIsNone(AL), ENone)),
                 SLet(PId("x"), T8, EWit("EXP"))>> \o Obs(T8, "r", "x")))>>

Names(role, id) == [r \in Roles |-> IF r = role THEN id ELSE Default(r)]
U8(n) == VU(BitsOfNat(n, 8))

NmFamilies == {[role |-> r, g |-> g] : r \in Roles, g \in 0..3}
\* identifiers the template itself uses are left out (they would change the program, not only a name)
Clash == {"e", "c", "i", "m", "s", "t", "r", "x", "k", "k1", "k2", "main", "EXP", "p1", "p2", "q1", "q2"} \cup {Default(r) : r \in Roles}
IdSeq == SetToSeq(Idents \ Clash)
NmProgramsOf(f) ==
  {LET nm == Names(f.role, IdSeq[i]) IN
   [items |-> Template(nm, FALSE, FALSE, FALSE, FALSE), tag |-> "names",
    alt |-> Template(nm, TRUE, TRUE, TRUE, TRUE),
    wdecls |-> <<<<nm["witness"], T8>>, <<"EXP", T8>>>>,
    args |-> (nm["parameter"] :> [ty |-> T8, v |-> U8(9)]),
    space |-> <<(nm["witness"] :> U8(77)) @@ ("EXP" :> U8(77)), (nm["witness"] :> U8(77)) @@ ("EXP" :> U8(78))>>]
     : i \in {j \in 1..Len(IdSeq) : j % 4 = f.g}}
=============================================================================
