------------------------------- MODULE Static -------------------------------
(***************************************************************************)
(* The static rules of Simfony, written from the book (reference layer).   *)
(* Checking is type directed: every expression is checked against the type *)
(* its context demands (rules S01..S20 of DESIGN.md appendix B).           *)
(*                                                                         *)
(* An(e, ty, G) = Err or a record of the witness and parameter           *)
(* occurrences found (in syntactic order, with their types).               *)
(* G = [vars, fns, al, inMain]                                             *)
(***************************************************************************)
EXTENDS Syntax, Literals

Err == [k |-> "err"]
\* ws: witness occurrences, ps: parameter occurrences, cs: tracked call sites (C14)
OKR == [k |-> "ok", ws |-> <<>>, ps |-> <<>>, cs |-> <<>>]
IsErr(r) == r.k = "err"
Both(r1, r2) == IF IsErr(r1) \/ IsErr(r2) THEN Err
                ELSE [k |-> "ok", ws |-> r1.ws \o r2.ws, ps |-> r1.ps \o r2.ps, cs |-> r1.cs \o r2.cs]
\* a call that carries a debug symbol: its kind, its source text (for dbg!: the text of the argument),
\* the type of the value it receives (used by dbg! / unwrap_left / unwrap_right to show the value)
Site(kind, text, ty) == [kind |-> kind, text |-> text, ty |-> ty, fn |-> "main"]
WithSite(r, site) == IF IsErr(r) THEN Err ELSE [r EXCEPT !.cs = <<site>> \o @]
InFn(r, name) == IF IsErr(r) THEN Err ELSE [r EXCEPT !.cs = [i \in 1..Len(@) |-> [@[i] EXCEPT !.fn = name]]]

Res(t, G) == Resolve(t, G.al)

RECURSIVE PatIds(_)
PatIds(p) == CASE p.k = "id" -> <<p.x>>
               [] p.k = "ign" -> <<>>
               [] p.k \in {"ptup", "parr"} -> Concat([i \in 1..Len(p.es) |-> PatIds(p.es[i])])

RECURSIVE PatShapeOK(_, _)
\* S07: a pattern must have the shape of its type
PatShapeOK(p, t) ==
  CASE p.k \in {"id", "ign"} -> TRUE
    [] p.k = "ptup" -> t.k = "tup" /\ Len(t.es) = Len(p.es) /\ \A i \in 1..Len(p.es) : PatShapeOK(p.es[i], t.es[i])
    [] p.k = "parr" -> t.k = "arr" /\ t.n = Len(p.es) /\ \A i \in 1..Len(p.es) : PatShapeOK(p.es[i], t.e)

RECURSIVE PatBinds(_, _)
\* name -> type bindings of a well-shaped pattern, as a sequence of <<name, type>>
PatBinds(p, t) ==
  CASE p.k = "id" -> <<<<p.x, t>>>>
    [] p.k = "ign" -> <<>>
    [] p.k = "ptup" -> Concat([i \in 1..Len(p.es) |-> PatBinds(p.es[i], t.es[i])])
    [] p.k = "parr" -> Concat([i \in 1..Len(p.es) |-> PatBinds(p.es[i], t.e)])

NoDup(s) == \A i, j \in 1..Len(s) : i # j => s[i] # s[j]

RECURSIVE Extend(_, _)
\* extend a name -> x function by a sequence of <<name, x>> (later wins)
\* (:> and @@ of the TLC module build explicit functions eagerly; a lazily evaluated
\*  function constructor here would re-evaluate the whole chain on every lookup)
Extend(f, bs) == IF bs = <<>> THEN f
                 ELSE LET b == Head(bs) IN Extend((b[1] :> b[2]) @@ f, Tail(bs))

MatchKind(arms) ==
  LET a == arms[1].p.k b == arms[2].p.k IN
  IF {a, b} = {"mleft", "mright"} THEN "either"
  ELSE IF {a, b} = {"mnone", "msome"} THEN "opt"
  ELSE IF {a, b} = {"mfalse", "mtrue"} THEN "bool"
  ELSE "bad"
\* the arm for structural Left (Left / None / false) and for Right
LeftArm(arms) == IF arms[1].p.k \in {"mleft", "mnone", "mfalse"} THEN arms[1] ELSE arms[2]
RightArm(arms) == IF arms[1].p.k \in {"mleft", "mnone", "mfalse"} THEN arms[2] ELSE arms[1]

LoopWidths == {1, 2, 4, 8, 16}
ListBoundOK(b) == b >= 2 /\ IsPow2(b)

RECURSIVE An(_, _, _)
RECURSIVE AnSeq(_, _, _)
RECURSIVE AnBlock(_, _, _, _)

AnSeq(es, tys, G) ==
  IF es = <<>> THEN OKR ELSE Both(An(Head(es), Head(tys), G), AnSeq(Tail(es), Tail(tys), G))

AnBlock(ss, fin, ty, G) ==
  IF ss = <<>>
  THEN (IF fin = <<>> THEN (IF ty = TUnit THEN OKR ELSE Err) ELSE An(fin[1], ty, G))
  ELSE LET s == Head(ss) IN
       IF s.k = "expr" THEN Both(An(s.e, TUnit, G), AnBlock(Tail(ss), fin, ty, G))
       ELSE LET t == Res(s.t, G) IN
            IF t.k = "undef" THEN Err
            ELSE LET r == An(s.e, t, G) IN      \* the right-hand side sees only earlier bindings
                 IF IsErr(r) \/ ~PatShapeOK(s.p, t) \/ ~NoDup(PatIds(s.p)) THEN Err
                 ELSE Both(r, AnBlock(Tail(ss), fin, ty, [G EXCEPT !.vars = Extend(G.vars, PatBinds(s.p, t))]))

AnCall(e, ty, G) ==
  LET f == e.f
      args == e.args
      n == Len(args)
  IN CASE f.k = "jet" ->
            IF f.n \notin JetNames \/ f.n \in ReservedJets THEN Err
            ELSE LET sig == JetSig(f.n) IN
                 IF n # Len(sig.args) \/ sig.ret # ty THEN Err
                 ELSE WithSite(AnSeq(args, sig.args, G), Site("jet", TokE(e), TUnit))
       [] f.k = "unwrap_left" ->
            LET r == Res(f.t, G) IN
            IF r.k = "undef" \/ n # 1 THEN Err
            ELSE WithSite(An(args[1], TEither(ty, r), G), Site("unwrap_left", TokE(e), TEither(ty, r)))
       [] f.k = "unwrap_right" ->
            LET l == Res(f.t, G) IN
            IF l.k = "undef" \/ n # 1 THEN Err
            ELSE WithSite(An(args[1], TEither(l, ty), G), Site("unwrap_right", TokE(e), TEither(l, ty)))
       [] f.k = "is_none" ->
            LET t == Res(f.t, G) IN IF t.k = "undef" \/ n # 1 \/ ty # TBool THEN Err ELSE An(args[1], TOpt(t), G)
       [] f.k = "unwrap" -> IF n # 1 THEN Err ELSE WithSite(An(args[1], TOpt(ty), G), Site("unwrap", TokE(e), TUnit))
       [] f.k = "assert" -> IF n # 1 \/ ty # TUnit THEN Err ELSE WithSite(An(args[1], TBool, G), Site("assert", TokE(e), TUnit))
       [] f.k = "panic" -> IF n # 0 THEN Err ELSE WithSite(OKR, Site("panic", TokE(e), TUnit))
       [] f.k = "dbg" -> IF n # 1 THEN Err ELSE WithSite(An(args[1], ty, G), Site("dbg", TokE(args[1]), ty))
       [] f.k = "cast" ->
            LET s == Res(f.t, G) IN
            IF s.k = "undef" \/ n # 1 THEN Err ELSE IF ~CastOK(s, ty) THEN Err ELSE An(args[1], s, G)
       [] f.k = "fn" ->
            IF f.n \notin DOMAIN G.fns THEN Err
            ELSE LET fn == G.fns[f.n] IN
                 IF n # Len(fn.params) \/ fn.ret # ty THEN Err
                 ELSE AnSeq(args, [i \in 1..n |-> fn.params[i].t], G)
       [] f.k = "fold" ->
            IF f.n \notin DOMAIN G.fns \/ ~ListBoundOK(f.b) THEN Err
            ELSE LET fn == G.fns[f.n] IN
                 IF Len(fn.params) # 2 THEN Err
                 ELSE IF fn.params[2].t # fn.ret \/ fn.ret # ty \/ n # 2 THEN Err
                 ELSE AnSeq(args, <<TList(fn.params[1].t, f.b), fn.params[2].t>>, G)
       [] f.k = "for_while" ->
            IF f.n \notin DOMAIN G.fns THEN Err
            ELSE LET fn == G.fns[f.n] IN
                 IF Len(fn.params) # 3 THEN Err
                 ELSE IF fn.ret.k # "either" THEN Err
                 ELSE IF fn.ret.r # fn.params[1].t THEN Err
                 ELSE IF ~(fn.params[3].t.k = "u" /\ fn.params[3].t.n \in LoopWidths) THEN Err
                 ELSE IF fn.ret # ty \/ n # 2 THEN Err
                 ELSE AnSeq(args, <<fn.params[1].t, fn.params[2].t>>, G)

AnMatch(e, ty, G) ==
  LET kind == MatchKind(e.arms)
      la == LeftArm(e.arms)
      ra == RightArm(e.arms)
  IN IF kind = "bad" THEN Err
     ELSE LET tl == IF kind = "either" THEN Res(la.p.t, G) ELSE TUnit
              tr == IF kind \in {"either", "opt"} THEN Res(ra.p.t, G) ELSE TUnit
          IN IF tl.k = "undef" \/ tr.k = "undef" THEN Err
             ELSE LET st == CASE kind = "either" -> TEither(tl, tr) [] kind = "opt" -> TOpt(tr) [] kind = "bool" -> TBool
                      gl == IF kind = "either" THEN [G EXCEPT !.vars = Extend(G.vars, <<<<la.p.x, tl>>>>)] ELSE G
                      gr == IF kind \in {"either", "opt"} THEN [G EXCEPT !.vars = Extend(G.vars, <<<<ra.p.x, tr>>>>)] ELSE G
                  IN Both(An(e.s, st, G), Both(An(la.e, ty, gl), An(ra.e, ty, gr)))

An(e, ty, G) ==
  CASE e.k = "bool" -> IF ty = TBool THEN OKR ELSE Err
    [] e.k = "dec" -> IF ty.k = "u" THEN (IF DecValue(e.s, ty.n) = REJECT THEN Err ELSE OKR) ELSE Err
    [] e.k = "bin" -> IF ty.k = "u" THEN (IF BinValue(e.s, ty.n) = REJECT THEN Err ELSE OKR) ELSE Err
    [] e.k = "hex" -> IF HexValue(e.s, ty).k = "reject" THEN Err ELSE OKR
    [] e.k = "wit" -> IF G.inMain THEN [k |-> "ok", ws |-> <<<<e.n, ty>>>>, ps |-> <<>>, cs |-> <<>>] ELSE Err
    [] e.k = "param" -> [k |-> "ok", ws |-> <<>>, ps |-> <<<<e.n, ty>>>>, cs |-> <<>>]
    [] e.k = "var" -> IF e.x \in DOMAIN G.vars THEN (IF G.vars[e.x] = ty THEN OKR ELSE Err) ELSE Err
    [] e.k = "paren" -> An(e.e, ty, G)
    [] e.k = "tuple" -> IF ty.k = "tup" THEN (IF Len(ty.es) = Len(e.es) THEN AnSeq(e.es, ty.es, G) ELSE Err) ELSE Err
    [] e.k = "array" -> IF ty.k = "arr" THEN (IF ty.n = Len(e.es) THEN AnSeq(e.es, Rep(ty.e, ty.n), G) ELSE Err) ELSE Err
    [] e.k = "list" -> IF ty.k = "list" THEN (IF Len(e.es) < ty.b THEN AnSeq(e.es, Rep(ty.e, Len(e.es)), G) ELSE Err) ELSE Err
    [] e.k = "left" -> IF ty.k = "either" THEN An(e.e, ty.l, G) ELSE Err
    [] e.k = "right" -> IF ty.k = "either" THEN An(e.e, ty.r, G) ELSE Err
    [] e.k = "none" -> IF ty.k = "opt" THEN OKR ELSE Err
    [] e.k = "some" -> IF ty.k = "opt" THEN An(e.e, ty.e, G) ELSE Err
    [] e.k = "call" -> AnCall(e, ty, G)
    [] e.k = "match" -> AnMatch(e, ty, G)
    [] e.k = "block" -> AnBlock(e.ss, e.fin, ty, G)

\* ---- programs --------------------------------------------------------------------------
EmptyFn == [x \in {} |-> 0]
G0 == [vars |-> EmptyFn, fns |-> EmptyFn, al |-> EmptyFn, inMain |-> FALSE]

RECURSIVE AnItems(_, _, _, _)
\* acc = [ws, ps, mains (sequence of main bodies with their alias env / fns)]
AnItems(items, G, acc, nmain) ==
  IF items = <<>> THEN [k |-> "ok", r |-> acc, G |-> G, nmain |-> nmain]
  ELSE LET it == Head(items) IN
       CASE it.k = "mod" -> AnItems(Tail(items), G, acc, nmain)
         [] it.k = "alias" ->
              LET t == Res(it.t, G) IN
              IF t.k = "undef" THEN Err
              ELSE AnItems(Tail(items), [G EXCEPT !.al = Extend(G.al, <<<<it.name, t>>>>)], acc, nmain)
         [] it.k = "fn" ->
              IF it.name = "main"
              THEN IF it.params # <<>> THEN Err
                   ELSE LET rt == IF it.ret = <<>> THEN TUnit ELSE Res(it.ret[1], G) IN
                        IF rt.k = "undef" THEN Err ELSE IF rt # TUnit THEN Err
                        ELSE LET r == An(it.body, TUnit, [G EXCEPT !.inMain = TRUE, !.vars = EmptyFn]) IN
                             IF IsErr(r) THEN Err
                             ELSE AnItems(Tail(items), G, Both(acc, r), nmain + 1)
              ELSE LET pts == [i \in 1..Len(it.params) |-> Res(it.params[i].t, G)]
                       rt == IF it.ret = <<>> THEN TUnit ELSE Res(it.ret[1], G)
                   IN IF rt.k = "undef" \/ \E i \in 1..Len(pts) : pts[i].k = "undef" THEN Err
                      ELSE IF ~NoDup([i \in 1..Len(it.params) |-> it.params[i].x]) THEN Err       \* S12
                      ELSE IF it.name \in DOMAIN G.fns THEN Err                                    \* S10
                      ELSE LET gb == [G EXCEPT !.inMain = FALSE,
                                               !.vars = Extend(EmptyFn, [i \in 1..Len(pts) |-> <<it.params[i].x, pts[i]>>])]
                               r == An(it.body, rt, gb)
                           IN IF IsErr(r) THEN Err
                              ELSE LET fn == [params |-> [i \in 1..Len(pts) |-> [x |-> it.params[i].x, t |-> pts[i]]],
                                              ret |-> rt, body |-> it.body, al |-> G.al, fns |-> G.fns]
                                   IN AnItems(Tail(items), [G EXCEPT !.fns = Extend(G.fns, <<<<it.name, fn>>>>)],
                                              Both(acc, InFn(r, it.name)), nmain)

\* all occurrences of one name carry one type
Consistent(ps) == \A i, j \in 1..Len(ps) : ps[i][1] = ps[j][1] => ps[i][2] = ps[j][2]

\* Analysis of a program: "err" or [wits, params, G] (G: the definitions visible at the end)
Analyze(items) ==
  LET a == AnItems(items, G0, OKR, 0) IN
  IF IsErr(a) THEN Err
  ELSE IF a.nmain # 1 THEN Err                                                 \* S13
  ELSE IF ~NoDup([i \in 1..Len(a.r.ws) |-> a.r.ws[i][1]]) THEN Err            \* S14
  ELSE IF ~Consistent(a.r.ps) THEN Err                                         \* S15
  ELSE [k |-> "ok", wits |-> Extend(EmptyFn, a.r.ws), params |-> Extend(EmptyFn, a.r.ps), G |-> a.G, sites |-> a.r.cs]

WellFormed(items) == ~IsErr(Analyze(items))

\* ---- which tracked call sites end up in the compiled program (functions are inlined) ------------
RECURSIVE FnsCalled(_)
\* names of custom functions called (also through fold / for_while) in an expression
FnsCalled(e) ==
  CASE e.k \in {"bool", "dec", "bin", "hex", "wit", "param", "var", "none"} -> {}
    [] e.k \in {"paren", "left", "right", "some"} -> FnsCalled(e.e)
    [] e.k \in {"tuple", "array", "list"} -> UNION {FnsCalled(e.es[i]) : i \in 1..Len(e.es)}
    [] e.k = "call" -> (IF e.f.k \in {"fn", "fold", "for_while"} THEN {e.f.n} ELSE {})
                       \cup UNION {FnsCalled(e.args[i]) : i \in 1..Len(e.args)}
    [] e.k = "match" -> FnsCalled(e.s) \cup FnsCalled(e.arms[1].e) \cup FnsCalled(e.arms[2].e)
    [] e.k = "block" -> UNION {FnsCalled(e.ss[i].e) : i \in 1..Len(e.ss)} \cup UNION {FnsCalled(e.fin[i]) : i \in 1..Len(e.fin)}
RECURSIVE Closure(_, _)
Closure(names, fns) ==
  LET more == names \cup UNION {FnsCalled(fns[n].body) : n \in names \cap DOMAIN fns}
  IN IF more = names THEN names ELSE Closure(more, fns)
\* sites of main and of every function reachable from main
\* (m = MainCtx(items, G0))
ReachableSites(m, an) ==
  LET live == Closure(FnsCalled(m.body), m.G.fns) \cup {"main"}
  IN SelectSeq(an.sites, LAMBDA s : s.fn \in live)

\* the definitions visible to main (everything defined before it)
RECURSIVE MainCtx(_, _)
MainCtx(items, G) ==
  LET it == Head(items) IN
  IF it.k = "fn" /\ it.name = "main" THEN [G |-> G, body |-> it.body]
  ELSE IF it.k = "alias" THEN MainCtx(Tail(items), [G EXCEPT !.al = Extend(G.al, <<<<it.name, Res(it.t, G)>>>>)])
  ELSE IF it.k = "fn" THEN
       LET pts == [i \in 1..Len(it.params) |-> Res(it.params[i].t, G)]
           rt == IF it.ret = <<>> THEN TUnit ELSE Res(it.ret[1], G)
           fn == [params |-> [i \in 1..Len(pts) |-> [x |-> it.params[i].x, t |-> pts[i]]],
                  ret |-> rt, body |-> it.body, al |-> G.al, fns |-> G.fns]
       IN MainCtx(Tail(items), [G EXCEPT !.fns = Extend(G.fns, <<<<it.name, fn>>>>)])
  ELSE MainCtx(Tail(items), G)
=============================================================================
