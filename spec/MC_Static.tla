------------------------------ MODULE MC_Static -----------------------------
(***************************************************************************)
(* C04: the front end accepts exactly the well-formed programs.            *)
(* Program schemas with slots; every slot has a well-formed default and a  *)
(* set of alternatives (type, arity, size, scope, name, order and          *)
(* signature edits).  A near miss = exactly one slot differs from its      *)
(* default.  The expectation (accept / reject) is NOT written by hand: it   *)
(* is computed by the static rules of Static.tla (WellFormed), so an        *)
(* alternative that happens to be well-formed is emitted as "accept" and    *)
(* goes through the whole pipeline.                                         *)
(***************************************************************************)
EXTENDS ProgMC

T1 == TU(1)
T2 == TU(2)
T8 == TU(8)
T16 == TU(16)
TP == TTup(<<T8, T8>>)
Eq8(a, b) == SExpr(AssertE(JetE("eq_8", <<a, b>>)))

\* ---- alternative pools -----------------------------------------------------------------
TyAlts == {T8, T16, TU(4), TBool, TP, TTup(<<T8>>), TTup(<<TU(4), TU(4)>>), TArr(T8, 1), TOpt(T8), TUnit}
PairTyAlts == {TP, TTup(<<T8, T8, T8>>), TTup(<<T8>>), TArr(T8, 2), TTup(<<T8, T16>>), T16, TTup(<<TTup(<<T8, T8>>)>>)}
PairPatAlts == {PTup(<<PId("a"), PId("b")>>), PTup(<<PId("a"), PId("b"), PId("c")>>), PTup(<<PId("a")>>),
                PTup(<<PId("a"), PId("a")>>), PArr(<<PId("a"), PId("b")>>), PId("a"), PIgn,
                PTup(<<PId("a"), PIgn>>), PTup(<<PTup(<<PId("a"), PId("b")>>), PIgn>>), PTup(<<PId("b"), PId("a")>>)}
PairExprAlts == {ETuple(<<Dec(1), Dec(2)>>), ETuple(<<Dec(1), Dec(2), Dec(3)>>), ETuple(<<Dec(1)>>), EArray(<<Dec(1), Dec(2)>>),
                 ETuple(<<Dec(1), Dec(256)>>), ETuple(<<Dec(1), EBool(TRUE)>>), Dec(7), ETuple(<<Dec(1), EBin(<<"1", "0">>)>>),
                 ETuple(<<Dec(1), EHex(<<"f", "f">>)>>), ETuple(<<Dec(1), EHex(<<"f">>)>>), ETuple(<<Dec(1), EBin(<<"1", "0", "1", "0", "1", "0", "1", "0">>)>>),
                 ETuple(<<Dec(1), EDec(<<"_">>)>>), ETuple(<<Dec(1), EDec(<<"2", "_", "5", "5">>)>>), ETuple(<<Dec(1), EDec(<<"0", "0", "2", "5", "6">>)>>)}
UseAlts == {V("a"), V("b"), V("c"), V("zz"), Dec(1), EBool(TRUE), ETuple(<<V("a")>>)}

\* S1: let with pattern / type / expression, then a use ---------------------------------------
S1(p, t, e, u) == <<Main(Blk(<<SLet(p, t, e), Eq8(u, Dec(1))>>))>>
S1Set == {S1(p, TP, ETuple(<<Dec(1), Dec(2)>>), V("a")) : p \in PairPatAlts}
         \cup {S1(PTup(<<PId("a"), PId("b")>>), t, ETuple(<<Dec(1), Dec(2)>>), V("a")) : t \in PairTyAlts}
         \cup {S1(PTup(<<PId("a"), PId("b")>>), TP, e, V("a")) : e \in PairExprAlts}
         \cup {S1(PTup(<<PId("a"), PId("b")>>), TP, ETuple(<<Dec(1), Dec(2)>>), u) : u \in UseAlts}

\* S2: scopes: definition order, block exit, shadowing with another type ---------------------------
S2Set ==
  LET d1 == SLet(PId("a"), T8, Dec(1))
      d2 == SLet(PId("b"), T8, V("a"))
      use(x) == Eq8(V(x), Dec(1))
  IN {<<Main(Blk(ss))>> : ss \in
        {<<d1, d2, use("b")>>, <<d2, d1, use("b")>>, <<d1, use("b"), d2>>, <<d1, SLet(PId("a"), T8, V("a")), use("a")>>,
         <<SLet(PId("a"), T8, V("a")), use("a")>>,
         <<d1, SExpr(Blk(<<d2, use("b")>>)), use("a")>>, <<d1, SExpr(Blk(<<d2>>)), use("b")>>,
         <<d1, SLet(PId("c"), T8, BlkE(<<d2>>, V("b"))), use("c")>>, <<d1, SLet(PId("c"), T8, BlkE(<<d2>>, V("b"))), use("b")>>,
         <<d1, SLet(PId("a"), T16, Dec(300)), use("a")>>, <<d1, SLet(PId("a"), T16, Dec(300)), SExpr(AssertE(JetE("eq_16", <<V("a"), Dec(300)>>)))>>,
         <<d1, SExpr(Blk(<<SLet(PId("a"), T16, Dec(300)), SExpr(AssertE(JetE("eq_16", <<V("a"), Dec(300)>>)))>>)), use("a")>>,
         <<d1, SExpr(Blk(<<SLet(PId("a"), T16, Dec(300)), use("a")>>))>>,
         <<d1, SExpr(Blk(<<SLet(PId("a"), T16, Dec(300))>>)), SExpr(AssertE(JetE("eq_16", <<V("a"), Dec(300)>>)))>>,
         <<d1, SLet(PId("b"), T8, Blk(<<>>)), use("a")>>, <<d1, SLet(PId("u"), TUnit, Blk(<<d2>>)), use("a")>>,
         <<d1, SLet(PId("b"), T8, BlkE(<<>>, V("a"))), use("b")>>, <<d1, SExpr(V("a")), use("a")>>, <<d1, SExpr(EUnit), use("a")>>,
         <<d1, SExpr(BlkE(<<>>, V("a"))), use("a")>>}}

\* S3: witnesses, parameters, main shape, items ------------------------------------------------------
W(n) == EWit(n)
S3Set ==
  LET m(ss) == Main(Blk(ss))
      f(body) == IFn("f", <<Param("a", T8)>>, <<T8>>, body)
      callf == Eq8(ECall(CFn("f"), <<Dec(1)>>), Dec(1))
  IN {<<m(<<Eq8(W("A"), W("B"))>>)>>, <<m(<<Eq8(W("A"), W("A"))>>)>>,
      <<m(<<SLet(PId("x"), T8, W("A")), SLet(PId("y"), T16, W("A"))>>)>>,
      <<m(<<SExpr(EMatch(EBool(TRUE), <<Arm(MFalse, Eq8(W("A"), Dec(1)).e), Arm(MTrue, Eq8(W("A"), Dec(2)).e)>>))>>)>>,
      <<f(BlkE(<<>>, V("a"))), m(<<callf>>)>>, <<f(BlkE(<<>>, W("A"))), m(<<callf>>)>>,
      <<f(BlkE(<<>>, W("A"))), m(<<>>)>>,
      <<f(BlkE(<<>>, EParam("P"))), m(<<callf>>)>>, <<f(BlkE(<<>>, EParam("P"))), m(<<Eq8(EParam("P"), Dec(1))>>)>>,
      <<f(BlkE(<<>>, EParam("P"))), m(<<SExpr(AssertE(JetE("eq_16", <<EParam("P"), Dec(1)>>)))>>)>>,
      <<m(<<Eq8(EParam("P"), EParam("P"))>>)>>,
      <<m(<<Eq8(EParam("P"), Dec(1)), SExpr(AssertE(JetE("eq_16", <<EParam("P"), Dec(1)>>)))>>)>>,
      <<>>, <<f(BlkE(<<>>, V("a")))>>, <<m(<<>>), m(<<>>)>>,
      <<IFn("main", <<Param("a", T8)>>, <<>>, Blk(<<>>))>>, <<IFn("main", <<>>, <<T8>>, BlkE(<<>>, Dec(1)))>>,
      <<IFn("main", <<>>, <<TUnit>>, Blk(<<>>))>>, <<IFn("main", <<>>, <<TUnit>>, BlkE(<<>>, EUnit))>>,
      <<IFn("main", <<>>, <<>>, BlkE(<<>>, Dec(1)))>>,
      <<m(<<callf>>), f(BlkE(<<>>, V("a")))>>, <<f(BlkE(<<>>, V("a"))), f(BlkE(<<>>, V("a"))), m(<<callf>>)>>,
      <<f(BlkE(<<>>, ECall(CFn("f"), <<V("a")>>))), m(<<callf>>)>>,
      <<IFn("f", <<Param("a", T8), Param("a", T16)>>, <<T8>>, BlkE(<<>>, Dec(1))), m(<<>>)>>,
      <<IFn("f", <<Param("a", T8), Param("a", T8)>>, <<T8>>, BlkE(<<>>, V("a"))), m(<<>>)>>,
      <<IFn("f", <<Param("a", T8), Param("a", T16)>>, <<T16>>, BlkE(<<>>, V("a"))),
        m(<<SExpr(AssertE(JetE("eq_16", <<ECall(CFn("f"), <<Dec(1), Dec(2)>>), Dec(2)>>)))>>)>>,
      <<IFn("f", <<Param("a", T8), Param("b", T8), Param("a", T16)>>, <<T16>>, BlkE(<<>>, V("a"))),
        m(<<SExpr(AssertE(JetE("eq_16", <<ECall(CFn("f"), <<Dec(1), Dec(2), Dec(3)>>), Dec(3)>>)))>>)>>,
      \* the repeated name need not be adjacent, and the types may differ
      <<IFn("f", <<Param("a", T8), Param("b", T8), Param("a", T8)>>, <<T8>>, BlkE(<<>>, V("b"))), m(<<>>)>>,
      <<IFn("f", <<Param("a", T8), Param("b", T8), Param("a", T16)>>, <<T16>>, BlkE(<<>>, V("a"))), m(<<>>)>>,
      <<IFn("f", <<Param("a", T8), Param("b", T16), Param("c", T8), Param("b", T16)>>, <<T8>>, BlkE(<<>>, V("a"))), m(<<>>)>>,
      <<IFn("f", <<Param("a", T8), Param("b", T16)>>, <<T16>>, BlkE(<<>>, V("b"))), m(<<SExpr(AssertE(JetE("eq_16", <<ECall(CFn("f"), <<Dec(1), Dec(2)>>), Dec(2)>>)))>>)>>,
      <<IAlias("A", T8), m(<<SLet(PId("x"), TAlias("A"), Dec(1))>>)>>, <<m(<<SLet(PId("x"), TAlias("A"), Dec(1))>>), IAlias("A", T8)>>,
      <<IAlias("A", TAlias("B")), IAlias("B", T8), m(<<>>)>>, <<IAlias("B", T8), IAlias("A", TAlias("B")), m(<<SLet(PId("x"), TAlias("A"), Dec(1))>>)>>,
      <<IAlias("A", T8), f(BlkE(<<SLet(PId("y"), TAlias("A"), V("a"))>>, V("y"))), m(<<callf>>)>>,
      <<IMod, m(<<>>)>>, <<m(<<>>), IMod>>,
      <<m(<<SLet(PId("x"), TBuiltin("Pubkey"), HexLit(ZeroBits(256)))>>)>>, <<m(<<SLet(PId("x"), TBuiltin("Height"), Dec(1))>>)>>}

\* S4: calls: arity, argument and result types, builtin signatures -------------------------------------
S4Set ==
  LET m(ss) == <<IFn("g", <<Param("a", T8), Param("b", T16)>>, <<T16>>, BlkE(<<>>, V("b"))),
                 IFn("acc", <<Param("e", T8), Param("s", T16)>>, <<T16>>, BlkE(<<>>, V("s"))),
                 IFn("bad1", <<Param("e", T8), Param("s", T16)>>, <<T8>>, BlkE(<<>>, V("e"))),
                 IFn("bad2", <<Param("e", T8), Param("s", T16), Param("t", T8)>>, <<T16>>, BlkE(<<>>, V("s"))),
                 IFn("lp", <<Param("s", T16), Param("c", T8), Param("i", TU(4))>>, <<TEither(T8, T16)>>, BlkE(<<>>, ERight(V("s")))),
                 IFn("lp32", <<Param("s", T16), Param("c", T8), Param("i", TU(32))>>, <<TEither(T8, T16)>>, BlkE(<<>>, ERight(V("s")))),
                 IFn("lpsw", <<Param("s", T16), Param("c", T8), Param("i", TU(4))>>, <<TEither(T16, T8)>>, BlkE(<<>>, ELeft(V("s")))),
                 IFn("lp2", <<Param("s", T16), Param("i", TU(4))>>, <<TEither(T8, T16)>>, BlkE(<<>>, ERight(V("s")))),
                 IFn("lp0", <<>>, <<TEither(T8, T16)>>, BlkE(<<>>, ERight(Dec(1)))),
                 IFn("lp1p", <<Param("s", T16)>>, <<TEither(T8, T16)>>, BlkE(<<>>, ERight(V("s")))),
                 IFn("lp4", <<Param("s", T16), Param("c", T8), Param("i", TU(4)), Param("z", T8)>>, <<TEither(T8, T16)>>, BlkE(<<>>, ERight(V("s")))),
                 IFn("acc0", <<>>, <<T16>>, BlkE(<<>>, Dec(1))),
                 \* typing is nominal: a counter (argument, element ...) of a type that merely has the LAYOUT of an integer
                 IFn("lpb", <<Param("s", T16), Param("c", T8), Param("i", TBool)>>, <<TEither(T8, T16)>>, BlkE(<<>>, ERight(V("s")))),
                 IFn("lpt", <<Param("s", T16), Param("c", T8), Param("i", TTup(<<TU(4), TU(4)>>))>>, <<TEither(T8, T16)>>, BlkE(<<>>, ERight(V("s")))),
                 IFn("lpa", <<Param("s", T16), Param("c", T8), Param("i", TArr(TU(1), 4))>>, <<TEither(T8, T16)>>, BlkE(<<>>, ERight(V("s")))),
                 IFn("lpe", <<Param("s", T16), Param("c", T8), Param("i", TEither(TUnit, TUnit))>>, <<TEither(T8, T16)>>, BlkE(<<>>, ERight(V("s")))),
                 IFn("lp1", <<Param("s", T16), Param("c", T8), Param("i", TU(1))>>, <<TEither(T8, T16)>>, BlkE(<<>>, ERight(V("s")))),
                 IFn("lp8", <<Param("s", T16), Param("c", T8), Param("i", TU(8))>>, <<TEither(T8, T16)>>, BlkE(<<>>, ERight(V("s")))),
                 IFn("lp64", <<Param("s", T16), Param("c", T8), Param("i", TU(64))>>, <<TEither(T8, T16)>>, BlkE(<<>>, ERight(V("s")))),
                 IFn("acct", <<Param("e", TTup(<<TU(4), TU(4)>>)), Param("s", T16)>>, <<T16>>, BlkE(<<>>, V("s"))),
                 Main(Blk(ss))>>
      l16(e) == SLet(PId("r"), T16, e)
      l8(e) == SLet(PId("r"), T8, e)
      lst == EList(<<Dec(1), Dec(2)>>)
  IN {m(<<s>>) : s \in
       {l16(ECall(CFn("g"), <<Dec(1), Dec(2)>>)), l16(ECall(CFn("g"), <<Dec(1)>>)), l16(ECall(CFn("g"), <<Dec(1), Dec(2), Dec(3)>>)),
        l8(ECall(CFn("g"), <<Dec(1), Dec(2)>>)), l16(ECall(CFn("g"), <<Dec(300), Dec(2)>>)), l16(ECall(CFn("h"), <<Dec(1), Dec(2)>>)),
        l16(ECall(CFn("g"), <<ETuple(<<Dec(1), Dec(2)>>)>>)),
        l16(ECall(CFold("acc", 4), <<lst, Dec(0)>>)), l16(ECall(CFold("acc", 2), <<lst, Dec(0)>>)), l16(ECall(CFold("acc", 4), <<Dec(0), lst>>)),
        l16(ECall(CFold("bad1", 4), <<lst, Dec(0)>>)), l8(ECall(CFold("bad1", 4), <<lst, Dec(0)>>)), l16(ECall(CFold("bad2", 4), <<lst, Dec(0)>>)),
        l16(ECall(CFold("acc", 3), <<lst, Dec(0)>>)), l16(ECall(CFold("acc", 4), <<lst>>)), l16(ECall(CFold("nofn", 4), <<lst, Dec(0)>>)),
        l16(ECall(CFold("acc", 4), <<EList(<<Dec(1), Dec(2), Dec(3)>>), Dec(0)>>)), l16(ECall(CFold("acc", 4), <<EList(<<Dec(1), Dec(2), Dec(3), Dec(4)>>), Dec(0)>>)),
        l16(ECall(CFold("acc", 4), <<EList(<<>>), Dec(0)>>)), l16(ECall(CFold("acc", 1), <<EList(<<>>), Dec(0)>>)),
        SLet(PId("r"), TEither(T8, T16), ECall(CForWhile("lp"), <<Dec(0), Dec(1)>>)),
        SLet(PId("r"), TEither(T8, T16), ECall(CForWhile("lp32"), <<Dec(0), Dec(1)>>)),
        SLet(PId("r"), TEither(T16, T8), ECall(CForWhile("lpsw"), <<Dec(0), Dec(1)>>)),
        SLet(PId("r"), TEither(T8, T16), ECall(CForWhile("lp2"), <<Dec(0), Dec(1)>>)),
        SLet(PId("r"), TEither(T8, T16), ECall(CForWhile("lp"), <<Dec(0)>>)),
        SLet(PId("r"), TEither(T16, T8), ECall(CForWhile("lp"), <<Dec(0), Dec(1)>>)),
        SLet(PId("r"), TEither(T8, T16), ECall(CForWhile("lp"), <<Dec(1), Dec(0), Dec(0)>>)),
        SLet(PId("r"), TEither(T8, T16), ECall(CForWhile("g"), <<Dec(0), Dec(1)>>)),
        SLet(PId("r"), TEither(T8, T16), ECall(CForWhile("lpb"), <<Dec(0), Dec(1)>>)),
        SLet(PId("r"), TEither(T8, T16), ECall(CForWhile("lp0"), <<Dec(0), Dec(1)>>)),
        SLet(PId("r"), TEither(T8, T16), ECall(CForWhile("lp1p"), <<Dec(0), Dec(1)>>)),
        SLet(PId("r"), TEither(T8, T16), ECall(CForWhile("lp4"), <<Dec(0), Dec(1)>>)),
        l16(ECall(CFold("acc0", 4), <<lst, Dec(0)>>)),
        SLet(PId("r"), TEither(T8, T16), ECall(CForWhile("lpt"), <<Dec(0), Dec(1)>>)),
        SLet(PId("r"), TEither(T8, T16), ECall(CForWhile("lpa"), <<Dec(0), Dec(1)>>)),
        SLet(PId("r"), TEither(T8, T16), ECall(CForWhile("lpe"), <<Dec(0), Dec(1)>>)),
        SLet(PId("r"), TEither(T8, T16), ECall(CForWhile("lp1"), <<Dec(0), Dec(1)>>)),
        SLet(PId("r"), TEither(T8, T16), ECall(CForWhile("lp8"), <<Dec(0), Dec(1)>>)),
        SLet(PId("r"), TEither(T8, T16), ECall(CForWhile("lp64"), <<Dec(0), Dec(1)>>)),
        l16(ECall(CFn("g"), <<ETuple(<<Dec(1), Dec(2)>>), Dec(2)>>)),
        l16(ECall(CFold("acct", 4), <<lst, Dec(0)>>)),
        l16(ECall(CFold("acct", 4), <<EList(<<ETuple(<<Dec(1), Dec(2)>>)>>), Dec(0)>>)),
        l16(ECall(CFold("acc", 4), <<EList(<<ETuple(<<Dec(1), Dec(2)>>)>>), Dec(0)>>)),
        l8(JetE("add_8", <<Dec(1), Dec(2)>>)), SLet(PId("r"), TTup(<<TBool, T8>>), JetE("add_8", <<Dec(1), Dec(2)>>)),
        SLet(PId("r"), TTup(<<TU(1), T8>>), JetE("add_8", <<Dec(1), Dec(2)>>)),
        SLet(PId("r"), TBool, JetE("eq_8", <<ETuple(<<Dec(1), Dec(2)>>), Dec(3)>>)),
        SLet(PId("r"), TU(1), JetE("eq_8", <<Dec(1), Dec(3)>>)),
        l8(Call1(CUnwrap, ESome(Dec(1)))), l8(Call1(CUnwrap, Dec(1))), l8(ECall(CUnwrap, <<ESome(Dec(1)), Dec(2)>>)), l8(ECall(CUnwrap, <<>>)),
        l8(Call1(CUnwrapLeft(T16), ELeft(Dec(1)))), l8(Call1(CUnwrapLeft(T16), ERight(Dec(1)))), l8(Call1(CUnwrapLeft(T16), ERight(Dec(300)))),
        l16(Call1(CUnwrapRight(T8), ERight(Dec(300)))), l8(Call1(CUnwrapRight(T8), ESome(Dec(1)))),
        SLet(PId("r"), TBool, Call1(CIsNone(T8), ENone)), l8(Call1(CIsNone(T8), ENone)), SLet(PId("r"), TBool, Call1(CIsNone(T8), Dec(1))),
        SLet(PId("r"), TBool, Call1(CIsNone(T8), ESome(Dec(300)))), SLet(PId("r"), TU(1), Call1(CIsNone(T8), ENone)),
        SExpr(AssertE(EBool(TRUE))), SExpr(AssertE(Dec(1))), SExpr(ECall(CAssert, <<EBool(TRUE), EBool(TRUE)>>)), l8(AssertE(EBool(TRUE))),
        SLet(PId("r"), TUnit, AssertE(EBool(TRUE))),
        l8(ECall(CPanic, <<>>)), l8(ECall(CPanic, <<Dec(1)>>)), SExpr(ECall(CPanic, <<>>)), l8(Call1(CDbg, Dec(1))), l8(Call1(CDbg, EBool(TRUE))),
        l8(ECall(CDbg, <<Dec(1), Dec(2)>>)),
        l16(CastE(TP, ETuple(<<Dec(1), Dec(2)>>))), l8(CastE(TP, ETuple(<<Dec(1), Dec(2)>>))), l16(CastE(T8, Dec(1))), l16(CastE(TP, Dec(1))),
        l16(CastE(TArr(T8, 2), EArray(<<Dec(1), Dec(2)>>))), l16(CastE(TTup(<<TU(4), TU(4), T8>>), ETuple(<<Dec(1), Dec(2), Dec(3)>>))),
        SLet(PId("r"), TBool, CastE(TU(1), Dec(1))), SLet(PId("r"), TOpt(T8), CastE(TEither(TUnit, T8), ERight(Dec(1)))),
        SLet(PId("r"), TOpt(T8), CastE(TEither(T8, TUnit), ELeft(Dec(1)))), SLet(PId("r"), TList(T8, 2), CastE(TOpt(T8), ENone)),
        SLet(PId("r"), TList(T8, 4), CastE(TTup(<<TOpt(TArr(T8, 2)), TOpt(T8)>>), ETuple(<<ENone, ENone>>))),
        SLet(PId("r"), TList(T8, 4), CastE(TTup(<<TOpt(T8), TOpt(TArr(T8, 2))>>), ETuple(<<ENone, ENone>>))),
        SLet(PId("r"), TTup(<<TBool, T8>>), JetE("add_8", <<Dec(1), Dec(2)>>)), SLet(PId("r"), TTup(<<TBool, T8>>), JetE("add_8", <<Dec(1)>>)),
        SLet(PId("r"), TTup(<<T8, TBool>>), JetE("add_8", <<Dec(1), Dec(2)>>)), l8(JetE("add_8", <<Dec(1), Dec(2)>>)),
        SLet(PId("r"), TTup(<<TBool, T8>>), JetE("add_8", <<ETuple(<<Dec(1), Dec(2)>>)>>)),
        SLet(PId("r"), TTup(<<TBool, T8>>), JetE("full_add_8", <<EBool(FALSE), Dec(1), Dec(2)>>)),
        SLet(PId("r"), TTup(<<TBool, T8>>), JetE("full_add_8", <<ETuple(<<EBool(FALSE), Dec(1)>>), Dec(2)>>)),
        SExpr(JetE("verify", <<EBool(TRUE)>>)), SLet(PId("r"), TUnit, JetE("verify", <<EBool(TRUE)>>)), l8(JetE("nosuchjet", <<Dec(1)>>)),
        SLet(PId("r"), TUnit, JetE("check_sig_verify", <<HexLit(ZeroBits(256)), EHex(Rep("0", 128)), EHex(Rep("0", 128))>>))}}

\* S5: match ------------------------------------------------------------------------------------------
S5Set ==
  LET m(e) == <<Main(Blk(<<SLet(PId("o"), TOpt(T8), ESome(Dec(1))), SLet(PId("e"), TEither(T8, T16), ELeft(Dec(1))),
                          SLet(PId("c"), TBool, EBool(TRUE)), SLet(PId("r"), T8, e)>>))>>
  IN {m(e) : e \in
       {EMatch(V("o"), <<Arm(MNone, Dec(0)), Arm(MSome("v", T8), V("v"))>>), EMatch(V("o"), <<Arm(MSome("v", T8), V("v")), Arm(MNone, Dec(0))>>),
        EMatch(V("o"), <<Arm(MNone, Dec(0)), Arm(MNone, Dec(1))>>), EMatch(V("o"), <<Arm(MSome("v", T8), V("v")), Arm(MSome("w", T8), V("w"))>>),
        EMatch(V("o"), <<Arm(MNone, Dec(0)), Arm(MSome("v", T16), Dec(1))>>), EMatch(V("o"), <<Arm(MNone, Dec(0)), Arm(MSome("v", T8), V("o"))>>),
        EMatch(V("o"), <<Arm(MNone, V("v")), Arm(MSome("v", T8), V("v"))>>), EMatch(V("o"), <<Arm(MNone, Dec(300)), Arm(MSome("v", T8), V("v"))>>),
        EMatch(V("o"), <<Arm(MFalse, Dec(0)), Arm(MTrue, Dec(1))>>), EMatch(V("o"), <<Arm(MNone, Dec(0)), Arm(MTrue, Dec(1))>>),
        EMatch(V("o"), <<Arm(MLeft("l", TUnit), Dec(0)), Arm(MRight("v", T8), V("v"))>>),
        EMatch(V("e"), <<Arm(MLeft("l", T8), V("l")), Arm(MRight("x", T16), Dec(2))>>), EMatch(V("e"), <<Arm(MRight("x", T16), Dec(2)), Arm(MLeft("l", T8), V("l"))>>),
        EMatch(V("e"), <<Arm(MLeft("l", T8), V("l")), Arm(MRight("x", T8), V("x"))>>), EMatch(V("e"), <<Arm(MLeft("l", T16), Dec(1)), Arm(MRight("x", T8), V("x"))>>),
        EMatch(V("e"), <<Arm(MLeft("l", T8), V("l")), Arm(MLeft("x", T8), V("x"))>>), EMatch(V("e"), <<Arm(MLeft("l", T8), V("x")), Arm(MRight("x", T16), V("l"))>>),
        EMatch(V("e"), <<Arm(MLeft("l", T8), V("l")), Arm(MRight("l", T16), Dec(1))>>),
        \* the variable of one arm is not in scope in the other arm (either textual order)
        EMatch(V("e"), <<Arm(MLeft("l", T8), V("l")), Arm(MRight("x", T16), V("l"))>>),
        EMatch(V("e"), <<Arm(MRight("x", T16), V("l")), Arm(MLeft("l", T8), V("l"))>>),
        EMatch(V("e"), <<Arm(MLeft("l", T8), Dec(1)), Arm(MRight("x", T16), V("l"))>>),
        EMatch(V("o"), <<Arm(MSome("v", T8), V("v")), Arm(MNone, V("v"))>>),
        EMatch(V("c"), <<Arm(MFalse, Dec(0)), Arm(MTrue, Dec(1))>>), EMatch(V("c"), <<Arm(MTrue, Dec(0)), Arm(MFalse, Dec(1))>>),
        EMatch(V("c"), <<Arm(MTrue, Dec(0)), Arm(MTrue, Dec(1))>>), EMatch(V("c"), <<Arm(MFalse, Dec(0)), Arm(MTrue, EBool(TRUE))>>),
        EMatch(V("c"), <<Arm(MNone, Dec(0)), Arm(MSome("v", T8), V("v"))>>), EMatch(Dec(1), <<Arm(MFalse, Dec(0)), Arm(MTrue, Dec(1))>>),
        EMatch(V("c"), <<Arm(MFalse, Blk(<<>>)), Arm(MTrue, Dec(1))>>), EMatch(V("c"), <<Arm(MFalse, BlkE(<<>>, Dec(0))), Arm(MTrue, BlkE(<<SLet(PId("z"), T8, Dec(4))>>, V("z")))>>)}}

\* S6: containers and literals at every position ---------------------------------------------------------
S6Set ==
  LET m(t, e) == <<Main(Blk(<<SLet(PId("r"), t, e)>>))>> IN
  {m(t, e) : t \in {TArr(T8, 2), TArr(T8, 3), TArr(T8, 0), TList(T8, 2), TList(T8, 4), TTup(<<T8, T8>>), TOpt(T8), TEither(T8, T16), T16, TBool, TU(1), TUnit, TArr(T8, 1)},
             e \in {EArray(<<Dec(1), Dec(2)>>), EArray(<<>>), EList(<<>>), EList(<<Dec(1)>>), EList(<<Dec(1), Dec(2), Dec(3)>>), EList(<<Dec(1), Dec(2), Dec(3), Dec(4)>>),
                    ENone, ESome(Dec(1)), ELeft(Dec(1)), ERight(Dec(1)), ERight(Dec(300)), EUnit, EBool(TRUE), Dec(1), Dec(0), EHex(<<"0", "1", "0", "2">>),
                    EHex(<<"0", "1">>), EBin(<<"1">>), EParen(Dec(1)), ETuple(<<Dec(1)>>), EArray(<<Dec(1)>>)}}

\* S7: sizes whose balanced layout is not a plain halving (5, 6, 7, 9, 13), every builtin alias as a parameter / result type,
\* one parameter used at two types that merely share a layout --------------------------------------------------------
S7Set ==
  LET m(ss) == Main(Blk(ss))
      arr(n) == EArray([i \in 1..n |-> Dec(i)])
      pat(n) == PArr([i \in 1..n |-> IF i = n THEN PId("last") ELSE IF i = 1 THEN PId("first") ELSE PIgn])
      sized(n) == <<m(<<SLet(PId("a"), TArr(T8, n), arr(n)), SLet(pat(n), TArr(T8, n), V("a")),
                         Eq8(V("last"), Dec(n)), Eq8(V("first"), Dec(1))>>)>>
      tup(n) == <<m(<<SLet(PId("a"), TTup([i \in 1..n |-> T8]), ETuple([i \in 1..n |-> Dec(i)])),
                       SLet(PTup([i \in 1..n |-> IF i = n THEN PId("last") ELSE PIgn]), TTup([i \in 1..n |-> T8]), V("a")),
                       Eq8(V("last"), Dec(n))>>)>>
      passes(n) == <<IFn("idn", <<Param("a", TArr(T8, n))>>, <<TArr(T8, n)>>, BlkE(<<>>, V("a"))),
                     m(<<SLet(pat(n), TArr(T8, n), ECall(CFn("idn"), <<arr(n)>>)), Eq8(V("last"), Dec(n))>>)>>
      alias(nm) == <<IFn("keep", <<Param("a", TBuiltin(nm))>>, <<TBuiltin(nm)>>, BlkE(<<>>, V("a"))), m(<<>>)>>
      twice(t1, t2) == <<m(<<SLet(PId("x"), t1, EParam("P")), SLet(PId("y"), t2, EParam("P"))>>)>>
  IN {sized(n) : n \in {5, 6, 7, 9, 13}} \cup {tup(n) : n \in {5, 6, 7}} \cup {passes(n) : n \in {5, 6}}
     \cup {alias(nm) : nm \in BuiltinAliasNames}
     \cup {twice(T16, TTup(<<T8, T8>>)), twice(TTup(<<T8, T8>>), T16), twice(TBool, TU(1)), twice(TArr(T8, 2), T16),
           twice(T16, T16), twice(TTup(<<T8, T8>>), TTup(<<T8, T8>>))}

\* S8: "integer literals fit" at every width: decimal literals around 2^N (every value 0 .. 2^(N+1) for the sub-byte widths),
\* written plainly, with a separator, with leading zeros; binary / hexadecimal literals of the right, a shorter and a longer
\* digit count; the same literals as a tuple component, an array element and a call argument --------------------------------
S8Set ==
  LET m(ss) == <<Main(Blk(ss))>>
      D(str) == EDec(str)
      at(t, e) == {m(<<SLet(PId("r"), t, e)>>),
                   m(<<SLet(PId("r"), TTup(<<T8, t>>), ETuple(<<Dec(1), e>>))>>),
                   m(<<SLet(PId("r"), TArr(t, 2), EArray(<<e, e>>))>>),
                   m(<<SLet(PId("r"), TOpt(t), ESome(e))>>)}
      small(N) == UNION {at(TU(N), Dec(v)) : v \in 0..(2 * Pow2(N))}
      edge(N) == UNION {at(TU(N), Dec(v)) : v \in {0, 1, Pow2(N) - 2, Pow2(N) - 1, Pow2(N), Pow2(N) + 1, 2 * Pow2(N) - 1, 2 * Pow2(N)}}
      wide == UNION {at(TU(32), D(<<"4", "2", "9", "4", "9", "6", "7", "2", "9", d>>)) : d \in {"4", "5", "6", "7"}}
              \cup UNION {at(TU(64), D(<<"1", "8", "4", "4", "6", "7", "4", "4", "0", "7", "3", "7", "0", "9", "5", "5", "1", "6", "1", d>>)) : d \in {"4", "5", "6", "7"}}
              \cup at(TU(32), D(<<"0", "0", "4", "2", "9", "4", "9", "6", "7", "2", "9", "6">>))
              \cup at(TU(32), D(<<"4", "_", "2", "9", "4", "_", "9", "6", "7", "_", "2", "9", "5">>))
      bins == UNION {at(TU(N), EBin(Rep("1", n))) : N \in {1, 2, 4, 8}, n \in {1, 2, 3, 4, 5, 7, 8, 9}}
      hexs == UNION {at(TU(N), EHex(Rep("f", n))) : N \in {4, 8, 16}, n \in {1, 2, 3, 4, 5}}
  IN UNION {small(N) : N \in {1, 2, 4}} \cup UNION {edge(N) : N \in {8, 16}} \cup wide \cup bins \cup hexs

StFamilies == {[s |-> i] : i \in 1..8}
StProgramsOf(f) ==
  LET S == CASE f.s = 1 -> S1Set [] f.s = 2 -> S2Set [] f.s = 3 -> S3Set [] f.s = 4 -> S4Set [] f.s = 5 -> S5Set [] f.s = 6 -> S6Set [] f.s = 7 -> S7Set [] f.s = 8 -> S8Set
      \* witnesses / parameters of an accepted near miss get all-zero values (one run)
      mk(it, an) ==
        LET wn == IF IsErr(an) THEN <<>> ELSE SetToSeq(DOMAIN an.wits)
            pn == IF IsErr(an) THEN {} ELSE DOMAIN an.params
        IN [items |-> it, tag |-> "static",
            wdecls |-> [i \in 1..Len(wn) |-> <<wn[i], an.wits[wn[i]]>>],
            args |-> [n \in pn |-> [ty |-> an.params[n], v |-> ZeroVal(an.params[n])]],
            space |-> <<[n \in {wn[i] : i \in 1..Len(wn)} |-> ZeroVal(an.wits[n])]>>]
  IN {mk(it, Analyze(it)) : it \in S}
=============================================================================
