----------------------------- MODULE MC_Compile -----------------------------
(***************************************************************************)
(* C01 family (shared by C02, C03, C14, C16, C17): every expression form   *)
(* over a small type universe, one production deep around each form, with  *)
(* one or two witnesses in scope; custom functions (0-3 parameters, nested  *)
(* calls, shadowing, asymmetric argument use).  The value of the form under *)
(* test is bound to r and compared with the witness EXP by Observe.         *)
(***************************************************************************)
EXTENDS ProgMC

\* ---- small type universe of the family -------------------------------------------------
T2 == TU(2)
T1 == TU(1)
TOptU2 == TOpt(T2)
TEi == TEither(T1, T2)
TPair == TTup(<<T1, T2>>)
TArr2 == TArr(T2, 2)
TL4 == TList(T1, 4)
DataTypes == {TBool, T1, T2, TU(4), TU(8), TUnit, TOptU2, TEi, TPair, TArr2, TL4, TTup(<<TBool>>),
              TTup(<<T1, TBool, T2>>), TArr(T1, 3), TOpt(TBool), TEither(TBool, TUnit), TOpt(TPair), TList(T2, 2)}

\* expressions of type ty over variables ctx (name -> type): leaves
Vars(ty, ctx) == {V(x) : x \in {y \in DOMAIN ctx : ctx[y] = ty}}
Lits(ty) == {LitOf(v, ty) : v \in Vals(ty, 2, 4)}
SomeLits(ty) == LET s == SetToSeq(Lits(ty)) IN {s[i] : i \in {1, Len(s)}}
Leaves(ty, ctx) == Vars(ty, ctx) \cup SomeLits(ty)

\* constructor forms with leaf components
RECURSIVE LeafSeqs(_, _)
LeafSeqs(tys, ctx) == IF tys = <<>> THEN {<<>>}
                      ELSE {<<h>> \o t : h \in Leaves(Head(tys), ctx), t \in LeafSeqs(Tail(tys), ctx)}
Constr(ty, ctx) ==
  CASE ty.k = "tup" -> {ETuple(es) : es \in LeafSeqs(ty.es, ctx)}
    [] ty.k = "arr" -> {EArray(es) : es \in LeafSeqs(Rep(ty.e, ty.n), ctx)}
    [] ty.k = "list" -> UNION {{EList(es) : es \in LeafSeqs(Rep(ty.e, n), ctx)} : n \in 0..(ty.b - 1)}
    [] ty.k = "opt" -> {ENone} \cup {ESome(e) : e \in Leaves(ty.e, ctx)}
    [] ty.k = "either" -> {ELeft(e) : e \in Leaves(ty.l, ctx)} \cup {ERight(e) : e \in Leaves(ty.r, ctx)}
    [] OTHER -> {}

\* eliminator / call forms producing ty from leaves
OtherTys == {T1, T2, TBool, TUnit}
Elim(ty, ctx) ==
     {EParen(e) : e \in Leaves(ty, ctx)}
  \cup {Call1(CUnwrap, e) : e \in Leaves(TOpt(ty), ctx) \cup Constr(TOpt(ty), ctx)}
  \cup UNION {{Call1(CUnwrapLeft(r), e) : e \in Leaves(TEither(ty, r), ctx) \cup Constr(TEither(ty, r), ctx)} : r \in OtherTys}
  \cup UNION {{Call1(CUnwrapRight(l), e) : e \in Leaves(TEither(l, ty), ctx) \cup Constr(TEither(l, ty), ctx)} : l \in OtherTys}
  \cup {Call1(CDbg, e) : e \in Leaves(ty, ctx)}
  \cup (IF ty = TBool THEN UNION {{Call1(CIsNone(t), e) : e \in Leaves(TOpt(t), ctx) \cup Constr(TOpt(t), ctx)} : t \in {T2, TBool}}
        ELSE {})
  \cup {BlkE(<<SLet(PId("t"), ty, e)>>, V("t")) : e \in Leaves(ty, ctx)}
  \cup {ECall(CPanic, <<>>)}

\* casts into ty from layout-equal source types
CastSources(ty) == {s \in DataTypes \cup {TEither(TUnit, TUnit), TTup(<<T1, T1>>), TTup(<<T2, T2>>), TEither(TUnit, T2),
                                         TTup(<<T2>>), TTup(<<T1, TTup(<<TBool, T2>>)>>),
                                         TTup(<<TOpt(TArr(T1, 2)), TList(T1, 2)>>), TTup(<<TOpt(TArr(T1, 2)), TOpt(T1)>>)}
                    : s # ty /\ CastOK(s, ty)}
Casts(ty, ctx) == UNION {{CastE(s, e) : e \in Leaves(s, ctx) \cup Constr(s, ctx)} : s \in CastSources(ty)}

\* match forms producing ty: scrutinee a variable; arms leaves (in both arm orders)
Matches(ty, ctx) ==
  LET arms(st) ==
        CASE st.k = "bool" -> {<<Arm(MFalse, a), Arm(MTrue, b)>> : a \in Leaves(ty, ctx), b \in Leaves(ty, ctx)}
          [] st.k = "opt" -> {<<Arm(MNone, a), Arm(MSome("m", st.e), b)>> :
                               a \in Leaves(ty, ctx), b \in Leaves(ty, Extend(ctx, <<<<"m", st.e>>>>))}
          [] st.k = "either" -> {<<Arm(MLeft("m", st.l), a), Arm(MRight("m", st.r), b)>> :
                                  a \in Leaves(ty, Extend(ctx, <<<<"m", st.l>>>>)), b \in Leaves(ty, Extend(ctx, <<<<"m", st.r>>>>))}
      sts == {t \in {ctx[x] : x \in DOMAIN ctx} : t.k \in {"bool", "opt", "either"}}
  IN UNION {UNION {{EMatch(s, a), EMatch(s, <<a[2], a[1]>>)} : s \in Vars(st, ctx), a \in arms(st)} : st \in sts}

\* a few jets inside ordinary expressions (the jet family proper is MC_Jets)
JetForms(ty, ctx) ==
  IF ty = TBool THEN {JetE("eq_1", <<a, b>>) : a \in Leaves(T1, ctx), b \in Leaves(T1, ctx)}
                     \cup {JetE("some_1", <<a>>) : a \in Leaves(T1, ctx)}
  ELSE IF ty = T1 THEN {JetE("xor_1", <<a, b>>) : a \in Leaves(T1, ctx), b \in Leaves(T1, ctx)}
                       \cup {JetE("complement_1", <<a>>) : a \in Leaves(T1, ctx)}
  ELSE {}

Forms(ty, ctx) == Leaves(ty, ctx) \cup Constr(ty, ctx) \cup Elim(ty, ctx) \cup Casts(ty, ctx) \cup Matches(ty, ctx)
                  \cup JetForms(ty, ctx)

\* ---- custom functions ------------------------------------------------------------------------
FnDefs ==
  <<IFn("idf", <<Param("a", T2)>>, <<T2>>, BlkE(<<>>, V("a"))),
    IFn("swap", <<Param("a", T1), Param("b", T2)>>, <<TTup(<<T2, T1>>)>>, BlkE(<<>>, ETuple(<<V("b"), V("a")>>))),
    IFn("fst", <<Param("a", T2), Param("b", T2)>>, <<T2>>, BlkE(<<>>, V("a"))),
    IFn("snd", <<Param("a", T2), Param("b", T2)>>, <<T2>>, BlkE(<<>>, V("b"))),
    IFn("rot", <<Param("a", T2), Param("b", T2), Param("c", T2)>>, <<TArr(T2, 3)>>, BlkE(<<>>, EArray(<<V("c"), V("a"), V("b")>>))),
    IFn("konst", <<>>, <<T2>>, BlkE(<<>>, Dec(2))),
    \* more than three parameters of different types: the balanced layout of the argument tuple matters
    IFn("four", <<Param("a", T1), Param("b", T2), Param("c", TBool), Param("d", T2)>>, <<TTup(<<T2, T1>>)>>,
        BlkE(<<>>, ETuple(<<V("d"), V("a")>>))),
    IFn("five", <<Param("a", T2), Param("b", T1), Param("c", T2), Param("d", TBool), Param("e", T1)>>, <<TTup(<<T1, T2>>)>>,
        BlkE(<<>>, ETuple(<<V("e"), EMatch(V("d"), <<Arm(MFalse, V("a")), Arm(MTrue, V("c"))>>)>>))),
    IFn("shadow", <<Param("a", T2), Param("b", T2)>>, <<T2>>, BlkE(<<SLet(PId("a"), T2, V("b"))>>, V("a"))),
    IFn("twice", <<Param("a", T2)>>, <<TTup(<<T2, T2>>)>>, BlkE(<<>>, ETuple(<<ECall(CFn("idf"), <<V("a")>>), ECall(CFn("konst"), <<>>)>>))),
    IFn("chk", <<Param("a", TBool)>>, <<>>, Blk(<<SExpr(AssertE(V("a")))>>)),
    \* a unit function whose body ends in a unit-typed call WITHOUT a semicolon (the final expression of the block)
    IFn("chk2", <<Param("a", TBool), Param("b", TBool)>>, <<>>, BlkE(<<SExpr(ECall(CFn("chk"), <<V("a")>>))>>, ECall(CFn("chk"), <<V("b")>>))),
    IFn("sel", <<Param("c", TBool), Param("x", T2), Param("y", T2)>>, <<T2>>,
        BlkE(<<>>, EMatch(V("c"), <<Arm(MFalse, V("x")), Arm(MTrue, V("y"))>>))),
    IFn("force", <<Param("o", TOptU2)>>, <<T2>>, BlkE(<<>>, Call1(CUnwrap, V("o")))),
    IFn("deep", <<Param("a", T2), Param("b", T2)>>, <<T2>>,
        BlkE(<<>>, ECall(CFn("sel"), <<JetE("eq_1", <<Dec(1), Dec(1)>>), ECall(CFn("snd"), <<V("b"), V("a")>>), V("b")>>)))>>

FnCalls(ctx) ==
  LET L2 == Leaves(T2, ctx) L1 == Leaves(T1, ctx) LB == Leaves(TBool, ctx) LO == Leaves(TOptU2, ctx) IN
     {[t |-> T2, e |-> ECall(CFn("idf"), <<a>>)] : a \in L2}
  \cup {[t |-> TTup(<<T2, T1>>), e |-> ECall(CFn("swap"), <<a, b>>)] : a \in L1, b \in L2}
  \cup {[t |-> T2, e |-> ECall(CFn(f), <<a, b>>)] : f \in {"fst", "snd", "shadow", "deep"}, a \in L2, b \in L2}
  \cup {[t |-> TArr(T2, 3), e |-> ECall(CFn("rot"), <<a, b, Dec(3)>>)] : a \in L2, b \in L2}
  \cup {[t |-> T2, e |-> ECall(CFn("konst"), <<>>)]}
  \cup {[t |-> TTup(<<T2, T1>>), e |-> ECall(CFn("four"), <<a, b, c, Dec(1)>>)] : a \in L1, b \in L2, c \in LB}
  \cup {[t |-> TTup(<<T2, T1>>), e |-> ECall(CFn("four"), <<Dec(1), Dec(2), EBool(FALSE), d>>)] : d \in L2}
  \cup {[t |-> TTup(<<T1, T2>>), e |-> ECall(CFn("five"), <<a, Dec(0), Dec(1), d, b>>)] : a \in L2, b \in L1, d \in LB}
  \cup {[t |-> TTup(<<T2, T2>>), e |-> ECall(CFn("twice"), <<a>>)] : a \in L2}
  \cup {[t |-> TUnit, e |-> ECall(CFn("chk"), <<a>>)] : a \in LB}
  \cup {[t |-> T2, e |-> ECall(CFn("sel"), <<c, a, b>>)] : c \in LB, a \in L2, b \in L2}
  \cup {[t |-> T2, e |-> ECall(CFn("force"), <<o>>)] : o \in LO \cup {ESome(a) : a \in L2}}
  \cup {[t |-> T2, e |-> ECall(CFn("idf"), <<ECall(CFn("fst"), <<a, b>>)>>)] : a \in L2, b \in L2}

\* ---- evaluated-and-discarded expressions (strict evaluation: a panic is never lost) ---------
\* possibly failing expressions of type u2 over a: bool, b: Option<u2>, c: Either<u1, u2>
Failing == {Call1(CUnwrap, V("b")), Call1(CUnwrapRight(T1), V("c")), ECall(CFn("force"), <<V("b")>>),
            BlkE(<<SExpr(AssertE(V("a")))>>, Dec(1)),
            EMatch(V("a"), <<Arm(MFalse, ECall(CPanic, <<>>)), Arm(MTrue, Dec(2))>>),
            EMatch(V("b"), <<Arm(MSome("v", T2), V("v")), Arm(MNone, ECall(CPanic, <<>>))>>)}
FailingUnit == {AssertE(V("a")), ECall(CFn("chk"), <<V("a")>>),
                EMatch(V("a"), <<Arm(MTrue, EUnit), Arm(MFalse, ECall(CPanic, <<>>))>>),
                AssertE(Call1(CIsNone(T2), V("b"))),
                Blk(<<SLet(PIgn, T2, Call1(CUnwrap, V("b")))>>)}
DiscardStmts ==
     {<<SLet(PIgn, T2, e)>> : e \in Failing}
  \cup {<<SLet(PTup(<<PIgn, PIgn>>), TTup(<<T2, TBool>>), ETuple(<<e, EBool(TRUE)>>))>> : e \in Failing}
  \cup {<<SLet(PArr(<<PIgn, PIgn>>), TArr(T2, 2), EArray(<<Dec(0), e>>))>> : e \in Failing}
  \cup {<<SLet(PTup(<<>>), TUnit, e)>> : e \in FailingUnit}
  \cup {<<SLet(PId("u"), T2, e)>> : e \in Failing}
  \cup {<<SLet(PTup(<<PId("u"), PIgn>>), TTup(<<T2, T2>>), ETuple(<<Dec(3), e>>))>> : e \in Failing}
  \cup {<<SExpr(e)>> : e \in FailingUnit}
  \cup {<<SLet(PIgn, T2, ECall(CFn("fst"), <<Dec(1), e>>))>> : e \in Failing}
  \cup {<<SLet(PIgn, T2, Call1(CDbg, e))>> : e \in Failing}
  \cup {<<SLet(PIgn, TOptU2, ESome(e))>> : e \in Failing}
  \cup {<<SLet(PIgn, TList(T2, 4), EList(<<Dec(1), e>>))>> : e \in Failing}
  \cup {<<SExpr(Blk(<<SLet(PIgn, T2, e)>>))>> : e \in Failing}
  \cup {<<SLet(PIgn, TUnit, EMatch(V("a"), <<Arm(MFalse, Blk(<<SLet(PIgn, T2, e)>>)), Arm(MTrue, EUnit)>>))>> : e \in Failing}
  \cup {<<SLet(PIgn, T2, e1), SLet(PIgn, T2, e2)>> : e1 \in Failing, e2 \in {Call1(CUnwrap, V("b")), Call1(CUnwrapRight(T1), V("c"))}}
  \* a block whose FINAL expression has type unit and may panic, after an expression statement / a let / nothing
  \cup {<<SExpr(BlkE(<<SExpr(u1)>>, u2))>> : u1 \in {AssertE(EBool(TRUE)), ECall(CFn("chk"), <<EBool(TRUE)>>)}, u2 \in FailingUnit}
  \cup {<<SLet(PTup(<<>>), TUnit, BlkE(<<SExpr(u1)>>, u2))>> : u1 \in {AssertE(EBool(TRUE))}, u2 \in FailingUnit}
  \cup {<<SExpr(BlkE(<<SLet(PId("u"), T2, Dec(1))>>, u2))>> : u2 \in FailingUnit}
  \cup {<<SExpr(BlkE(<<>>, u2))>> : u2 \in FailingUnit}
  \cup {<<SExpr(ECall(CFn("chk2"), <<EBool(TRUE), V("a")>>))>>, <<SExpr(ECall(CFn("chk2"), <<V("a"), EBool(TRUE)>>))>>}
  \cup {<<SExpr(EMatch(V("a"), <<Arm(MFalse, BlkE(<<SExpr(AssertE(EBool(TRUE)))>>, u2)), Arm(MTrue, EUnit)>>))>> : u2 \in FailingUnit}
DiscardDecls == <<<<"A", TBool, "a">>, <<"B", TOptU2, "b">>, <<"C", TEi, "c">>>>

\* ---- families ---------------------------------------------------------------------------------
Ctxs == {<<<<"A", a, "a">>>> : a \in {T2, TBool, TOptU2, TEi, TPair}}
        \cup {<<<<"A", TBool, "a">>, <<"B", b, "b">>>> : b \in {T2, TEi, TOptU2}}
CtxOf(decls) == Extend(EmptyFn, [i \in 1..Len(decls) |-> <<decls[i][3], decls[i][2]>>])

ResultTypes == IF Thorough THEN DataTypes ELSE {TBool, T1, T2, TOptU2, TEi, TPair, TArr2, TL4, TUnit}

FnCtxs == {<<<<"A", T2, "a">>>>, <<<<"A", T2, "a">>, <<"B", T2, "b">>>>, <<<<"A", TBool, "a">>, <<"B", TOptU2, "b">>>>,
           <<<<"A", T1, "a">>, <<"B", T2, "b">>>>}

MCFamilies == {[kind |-> "form", decls |-> d, ty |-> t] : d \in Ctxs, t \in ResultTypes}
              \cup {[kind |-> "fn", decls |-> d, f |-> fname] : d \in FnCtxs,
                       fname \in {"idf", "swap", "fst", "snd", "shadow", "deep", "rot", "konst", "twice", "chk", "sel", "force",
                                  "four", "five"}}
              \cup {[kind |-> "discard", g |-> i] : i \in 0..3}

DiscardSeq == SetToSeq(DiscardStmts)
MCProgramsOf(f) ==
  IF f.kind = "discard"
  THEN {[items |-> ObsProgram(FnDefs, DiscardDecls, DiscardSeq[i], TBool, V("a")),
         wdecls |-> ObsWitDecls(DiscardDecls, TBool), args |-> EmptyFn]
          : i \in {j \in 1..Len(DiscardSeq) : j % 4 = f.g}}
  ELSE IF f.kind = "form"
  THEN {[items |-> ObsProgram(<<>>, f.decls, <<>>, f.ty, e), wdecls |-> ObsWitDecls(f.decls, f.ty), args |-> EmptyFn]
          : e \in Forms(f.ty, CtxOf(f.decls))}
  ELSE {[items |-> ObsProgram(FnDefs, f.decls, <<>>, c.t, c.e), wdecls |-> ObsWitDecls(f.decls, c.t), args |-> EmptyFn]
          : c \in {c2 \in FnCalls(CtxOf(f.decls)) : c2.e.f.n = f.f}}
=============================================================================
