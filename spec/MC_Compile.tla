----------------------------- MODULE MC_Compile -----------------------------
(***************************************************************************)
(* C01 (and the program family shared by C02, C03, C10, C14, C16, C17):    *)
(* for every program of the generated family and every witness assignment  *)
(*   - the program is well-formed under the static rules (Static.tla);     *)
(*   - strict call-by-value evaluation (Dynamic.tla) and the Simplicity    *)
(*     term the translation scheme produces (Codegen.tla), evaluated with  *)
(*     Simplicity's semantics, give the same verdict, with and without     *)
(*     debug symbols;                                                      *)
(*   - code generation never fails on a well-formed program.               *)
(* Every explored program is emitted with its expected verdict vector and  *)
(* replayed against the real compiler + decoder + Bit Machine.             *)
(***************************************************************************)
EXTENDS Family, Json, IOUtils

Thorough == IOEnv.VERIF_TIER = "thorough"

VARIABLES phase, fam, prog, res
vars == <<phase, fam, prog, res>>

\* ---- small type universe of the family -------------------------------------------------
T2 == TU(2)
T1 == TU(1)
TOptU2 == TOpt(T2)
TEi == TEither(T1, T2)
TPair == TTup(<<T1, T2>>)
TArr2 == TArr(T2, 2)
TL4 == TList(T1, 4)
DataTypes == {TBool, T1, T2, TU(4), TU(8), TUnit, TOptU2, TEi, TPair, TArr2, TL4, TTup(<<TBool>>),
              TTup(<<T1, TBool, T2>>), TArr(T1, 3), TOpt(TBool), TEither(TBool, TUnit), TOpt(TPair), TList(T2, 2)}

\* expressions of type ty over variables ctx (name -> type): leaves
Vars(ty, ctx) == {V(x) : x \in {y \in DOMAIN ctx : ctx[y] = ty}}
Lits(ty) == {LitOf(v, ty) : v \in Vals(ty, 2, 4)}
SomeLits(ty) == LET s == SetToSeq(Lits(ty)) IN {s[i] : i \in {1, Len(s)}}
Leaves(ty, ctx) == Vars(ty, ctx) \cup SomeLits(ty)

\* constructor forms with leaf components
RECURSIVE LeafSeqs(_, _)
LeafSeqs(tys, ctx) == IF tys = <<>> THEN {<<>>}
                      ELSE {<<h>> \o t : h \in Leaves(Head(tys), ctx), t \in LeafSeqs(Tail(tys), ctx)}
Constr(ty, ctx) ==
  CASE ty.k = "tup" -> {ETuple(es) : es \in LeafSeqs(ty.es, ctx)}
    [] ty.k = "arr" -> {EArray(es) : es \in LeafSeqs(Rep(ty.e, ty.n), ctx)}
    [] ty.k = "list" -> UNION {{EList(es) : es \in LeafSeqs(Rep(ty.e, n), ctx)} : n \in 0..(ty.b - 1)}
    [] ty.k = "opt" -> {ENone} \cup {ESome(e) : e \in Leaves(ty.e, ctx)}
    [] ty.k = "either" -> {ELeft(e) : e \in Leaves(ty.l, ctx)} \cup {ERight(e) : e \in Leaves(ty.r, ctx)}
    [] OTHER -> {}

\* eliminator / call forms producing ty from leaves
OtherTys == {T1, T2, TBool, TUnit}
Elim(ty, ctx) ==
     {EParen(e) : e \in Leaves(ty, ctx)}
  \cup {Call1(CUnwrap, e) : e \in Leaves(TOpt(ty), ctx) \cup Constr(TOpt(ty), ctx)}
  \cup UNION {{Call1(CUnwrapLeft(r), e) : e \in Leaves(TEither(ty, r), ctx) \cup Constr(TEither(ty, r), ctx)} : r \in OtherTys}
  \cup UNION {{Call1(CUnwrapRight(l), e) : e \in Leaves(TEither(l, ty), ctx) \cup Constr(TEither(l, ty), ctx)} : l \in OtherTys}
  \cup {Call1(CDbg, e) : e \in Leaves(ty, ctx)}
  \cup (IF ty = TBool THEN UNION {{Call1(CIsNone(t), e) : e \in Leaves(TOpt(t), ctx) \cup Constr(TOpt(t), ctx)} : t \in {T2, TBool}}
        ELSE {})
  \cup {BlkE(<<SLet(PId("t"), ty, e)>>, V("t")) : e \in Leaves(ty, ctx)}
  \cup {ECall(CPanic, <<>>)}

\* casts into ty from layout-equal source types
CastSources(ty) == {s \in DataTypes \cup {TEither(TUnit, TUnit), TTup(<<T1, T1>>), TTup(<<T2, T2>>), TEither(TUnit, T2),
                                         TTup(<<T2>>), TTup(<<T1, TTup(<<TBool, T2>>)>>), TTup(<<T2, T2>>),
                                         TTup(<<TOpt(TArr(T1, 2)), TList(T1, 2)>>), TTup(<<TOpt(TArr(T1, 2)), TOpt(T1)>>)}
                    : s # ty /\ CastOK(s, ty)}
Casts(ty, ctx) == UNION {{CastE(s, e) : e \in Leaves(s, ctx) \cup Constr(s, ctx)} : s \in CastSources(ty)}

\* match forms producing ty: scrutinee a variable or leaf; arms leaves (in both arm orders)
Matches(ty, ctx) ==
  LET arms(st) ==
        CASE st.k = "bool" -> {<<Arm(MFalse, a), Arm(MTrue, b)>> : a \in Leaves(ty, ctx), b \in Leaves(ty, ctx)}
          [] st.k = "opt" -> {<<Arm(MNone, a), Arm(MSome("m", st.e), b)>> :
                               a \in Leaves(ty, ctx), b \in Leaves(ty, Extend(ctx, <<<<"m", st.e>>>>))}
          [] st.k = "either" -> {<<Arm(MLeft("m", st.l), a), Arm(MRight("m", st.r), b)>> :
                                  a \in Leaves(ty, Extend(ctx, <<<<"m", st.l>>>>)), b \in Leaves(ty, Extend(ctx, <<<<"m", st.r>>>>))}
      sts == {t \in {ctx[x] : x \in DOMAIN ctx} : t.k \in {"bool", "opt", "either"}}
  IN UNION {UNION {{EMatch(s, a), EMatch(s, <<a[2], a[1]>>)} : s \in Vars(st, ctx), a \in arms(st)} : st \in sts}

Forms(ty, ctx) == Leaves(ty, ctx) \cup Constr(ty, ctx) \cup Elim(ty, ctx) \cup Casts(ty, ctx) \cup Matches(ty, ctx)

\* ---- families: (witness declarations, result type) -> programs ----------------------------
\* contexts: one or two witnesses
Ctxs == {<<<<"A", a, "a">>>> : a \in {T2, TBool, TOptU2, TEi, TPair}}
        \cup {<<<<"A", TBool, "a">>, <<"B", b, "b">>>> : b \in {T2, TEi, TOptU2}}
CtxOf(decls) == Extend(EmptyFn, [i \in 1..Len(decls) |-> <<decls[i][3], decls[i][2]>>])

ResultTypes == IF Thorough THEN DataTypes ELSE {TBool, T2, TOptU2, TEi, TPair, TArr2, TL4, TUnit}

Families == {<<d, t>> : d \in Ctxs, t \in ResultTypes}

ProgramsOf(f) ==
  LET decls == f[1] ty == f[2] IN
  {[items |-> ObsProgram(<<>>, decls, <<>>, ty, e), wdecls |-> ObsWitDecls(decls, ty), args |-> EmptyFn]
     : e \in Forms(ty, CtxOf(decls))}

\* ---- checking one program: done in the action, stored in res ------------------------------
WitCap == 2
Check(p) ==
  LET an == Analyze(p.items)
      wf == ~IsErr(an)
  IN IF ~wf THEN [wf |-> FALSE, points |-> <<>>, vsrc |-> <<>>, vsimp |-> <<>>, vdbg |-> <<>>, cannot |-> FALSE, wtypesOK |-> FALSE]
     ELSE \* quantifier-bound names are evaluated once (a LET would be re-evaluated at every use inside
          \* the function constructors below - measured: 100 x slower)
          CHOOSE r \in {[wf |-> TRUE,
                         points |-> [i \in 1..Len(space) |-> [j \in 1..Len(p.wdecls) |-> space[i][p.wdecls[j][1]]]],
                         vsrc |-> [i \in 1..Len(space) |-> RunSrc(p.items, space[i], p.args)],
                         vsimp |-> [i \in 1..Len(space) |-> RunSimp(t0, space[i], wtypes)],
                         vdbg |-> [i \in 1..Len(space) |-> RunSimp(t1, space[i], wtypes)],
                         cannot |-> HasCannot(t0),
                         wtypesOK |-> an.wits = wtypes] :
                            wtypes \in {Extend(EmptyFn, p.wdecls)},
                            space \in {SetToSeq(WitSpace(p.wdecls, WitCap))},
                            t0 \in {Compile(p.items, p.args, FALSE)},
                            t1 \in {Compile(p.items, p.args, TRUE)}} : TRUE

Init == phase = "fam" /\ fam \in Families /\ prog = <<>> /\ res = <<>>
Next == /\ phase = "fam"
        /\ \E p \in ProgramsOf(fam) : prog' = p /\ res' = Check(p)
        /\ phase' = "prog" /\ fam' = fam
Spec == Init /\ [][Next]_vars

\* ---- properties ---------------------------------------------------------------------------
\* the generator only produces well-formed programs (a failure is a defect of generator or Static.tla)
GeneratedWellFormed == phase = "prog" => res.wf
\* the witness types the analysis derives are the declared ones
WitnessTypesAsDeclared == phase = "prog" => res.wtypesOK
\* C01 on the model: translation scheme + Simplicity semantics = book semantics
CompileCorrect == phase = "prog" => res.vsimp = res.vsrc
\* C14 on the model: the debug wrapper is behaviour neutral
DebugNeutral == phase = "prog" => res.vdbg = res.vsrc
\* C03 on the model: code generation is total on well-formed programs
CodegenTotal == phase = "prog" => ~res.cannot
\* non-vacuity helper: both verdicts occur
Emit == phase = "prog" =>
  PrintT(<<"REPLAY", ToJson([kind |-> "prog", tokens |-> TokProg(prog.items), accept |-> res.wf,
                             wnames |-> [j \in 1..Len(prog.wdecls) |-> prog.wdecls[j][1]],
                             wtypes |-> [j \in 1..Len(prog.wdecls) |-> prog.wdecls[j][2]],
                             points |-> res.points, verdicts |-> res.vsrc,
                             args |-> <<>>])>>)
=============================================================================
