SPECIFICATION Spec
INVARIANT RoundTrip
INVARIANT WellTypedSV
INVARIANT CastRefl
INVARIANT EmitType
INVARIANT EmitVal
CHECK_DEADLOCK FALSE
