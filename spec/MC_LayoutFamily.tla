-------------------------- MODULE MC_LayoutFamily --------------------------
(* C07: enumerates a type universe and values of each type; checks the
   reference layer's own consistency and emits one REPLAY case per type and per
   value for the harness (expected structural type, expected bits). *)
EXTENDS Types, Json, IOUtils

Thorough == IOEnv.VERIF_TIER = "thorough"

Leaf0 == {TBool, TU(1), TU(2), TU(8), TUnit}
LeafAll == Leaf0 \cup {TU(4), TU(16), TU(32), TU(64), TU(128), TU(256)}
ArrSizes == IF Thorough THEN (0..17) \cup {31, 32, 33, 63, 64, 65, 127, 128, 129, 255, 256}
            ELSE (0..17) \cup {31, 32, 33, 64, 65}
Bounds == IF Thorough THEN {2, 4, 8, 16, 32, 64, 128, 256, 512} ELSE {2, 4, 8, 16, 32, 64}
Cap == 2
Full == IF Thorough THEN 64 ELSE 16

\* one constructor application over element types S (containers over T)
TyCons(S, T) ==
     {TOpt(a) : a \in S} \cup {TEither(a, b) : a \in S, b \in S}
     \cup {TTup(<<a>>) : a \in S} \cup {TTup(<<a, b>>) : a \in S, b \in S}
     \cup {TTup(<<a, b, c>>) : a \in T, b \in T, c \in T}
     \cup {TArr(a, k) : a \in T, k \in ArrSizes}
     \cup {TList(a, b) : a \in T, b \in Bounds}

Small0 == {TBool, TU(2), TUnit}
D1 == TyCons(Leaf0, {TU(1), TU(8), TBool})
\* depth 2: constructors over a sample of depth-1 types
D1Sample == {TOpt(TU(2)), TEither(TBool, TU(8)), TTup(<<TU(1), TU(8)>>), TTup(<<TU(2), TBool, TU(1)>>),
             TArr(TU(1), 3), TArr(TU(8), 5), TList(TU(1), 4), TList(TU(8), 8), TTup(<<TU(8)>>), TArr(TBool, 0)}
D2 == {TOpt(a) : a \in D1Sample} \cup {TEither(a, b) : a \in D1Sample, b \in {TBool, TOpt(TU(2))}}
      \cup {TTup(<<a, b>>) : a \in D1Sample, b \in D1Sample}
      \cup {TTup(<<a, TU(1), b>>) : a \in D1Sample, b \in {TArr(TU(1), 3), TOpt(TU(2))}}
      \cup {TArr(a, k) : a \in D1Sample, k \in {0, 1, 2, 3, 5, 6, 7, 9}}
      \cup {TList(a, b) : a \in D1Sample, b \in {2, 4, 8}}
\* depth 3 (sample)
D2Sample == {TOpt(TOpt(TU(2))), TArr(TTup(<<TU(1), TU(8)>>), 3), TList(TArr(TU(1), 3), 4),
             TTup(<<TList(TU(1), 4), TOpt(TU(2))>>), TEither(TArr(TU(8), 5), TBool)}
D3 == {TOpt(a) : a \in D2Sample} \cup {TTup(<<a, b>>) : a \in D2Sample, b \in D2Sample}
      \cup {TArr(a, k) : a \in D2Sample, k \in {2, 3, 5}} \cup {TList(a, b) : a \in D2Sample, b \in {2, 4}}
      \cup {TEither(a, TBool) : a \in D2Sample}
Aliases == {BuiltinAlias(a) : a \in BuiltinAliasNames}

TypeU == LeafAll \cup D1 \cup D2 \cup D3 \cup Aliases
         \cup {TTup([i \in 1..k |-> IF i % 3 = 0 THEN TU(1) ELSE IF i % 3 = 1 THEN TU(8) ELSE TBool]) : k \in 4..(IF Thorough THEN 11 ELSE 9)}

VARIABLES phase, ty, val
vars == <<phase, ty, val>>

\* values explored per type: small container caps keep the product finite
MaxV == IF Thorough THEN 400 ELSE 48
ValsOf(t) == LET all == Vals(t, Cap, Full)
                 s == SetToSeq(all)
                 m == Len(s)
             IN IF m <= MaxV THEN all ELSE {s[1 + ((i * m) \div MaxV)] : i \in 0..(MaxV - 1)}

Init == phase = "type" /\ ty \in TypeU /\ val = <<>>
Next == /\ phase = "type"
        /\ \E v \in ValsOf(ty) : val' = v
        /\ phase' = "val" /\ ty' = ty
Spec == Init /\ [][Next]_vars

RECURSIVE PreOrder(_)
PreOrder(st) == CASE st.k = "1" -> <<0>>
                  [] st.k = "+" -> <<1>> \o PreOrder(st.a) \o PreOrder(st.b)
                  [] st.k = "*" -> <<2>> \o PreOrder(st.a) \o PreOrder(st.b)

\* ---- model-level properties of the reference layer --------------------------
RoundTrip == phase = "val" => Reconstruct(ToStruct(val, ty), ty) = val
WellTypedSV == phase = "val" => SVOfType(ToStruct(val, ty), Struct(ty))
\* casting to the type itself is the identity; casting is by layout only
CastRefl == phase = "val" => CastValue(val, ty, ty) = val

\* ---- emission ------------------------------------------------------------------
EmitType == phase = "type" =>
   PrintT(<<"REPLAY", ToJson([kind |-> "layout_type", ty |-> ty, st |-> PreOrder(Struct(ty))])>>)
EmitVal == phase = "val" =>
   PrintT(<<"REPLAY", ToJson([kind |-> "layout_val", ty |-> ty, v |-> val, bits |-> CompactBits(ToStruct(val, ty))])>>)
=============================================================================
