SPECIFICATION Spec
CONSTANTS
  Path <- PathRightFirst
  Families <- ScFamilies
  ProgramsOf <- ScProgramsOf
INVARIANT GeneratedWellFormed
INVARIANT WitnessTypesAsDeclared
INVARIANT CompileCorrect
INVARIANT DebugNeutral
INVARIANT CodegenTotal
CHECK_DEADLOCK FALSE
