SPECIFICATION Spec
CONSTANTS
  Families <- LitFamilies
  ProgramsOf <- LitProgramsOf

INVARIANT CompileCorrect
INVARIANT DebugNeutral
INVARIANT CodegenTotal
INVARIANT Emit
CHECK_DEADLOCK FALSE
INVARIANT LitTableOK
