------------------------------ MODULE Literals ------------------------------
(***************************************************************************)
(* Meaning of integer literals (book/src/type.md and its footnotes, C11):  *)
(*  - decimal: the mathematical value, `_` ignored, must fit the type,     *)
(*    at least one digit;                                                  *)
(*  - binary: exactly N digits for uN;                                     *)
(*  - hexadecimal: exactly N/4 digits for uN (N >= 8), or 2n digits for    *)
(*    [u8; n] (bytes in order).                                            *)
(* A literal is a sequence of one-character pieces.                        *)
(***************************************************************************)
EXTENDS Jets

REJECT == <<2>>                 \* not a bit sequence
VREJECT == [k |-> "reject"]

Strip(s) == SelectSeq(s, LAMBDA c : c # "_")

DigitVal(c) ==
  CASE c = "0" -> 0 [] c = "1" -> 1 [] c = "2" -> 2 [] c = "3" -> 3 [] c = "4" -> 4
    [] c = "5" -> 5 [] c = "6" -> 6 [] c = "7" -> 7 [] c = "8" -> 8 [] c = "9" -> 9
    [] c \in {"a", "A"} -> 10 [] c \in {"b", "B"} -> 11 [] c \in {"c", "C"} -> 12
    [] c \in {"d", "D"} -> 13 [] c \in {"e", "E"} -> 14 [] c \in {"f", "F"} -> 15

RECURSIVE SmallDec(_)
SmallDec(ds) == IF ds = <<>> THEN 0 ELSE 10 * SmallDec(Front(ds)) + DigitVal(Last(ds))

RECURSIVE BigDec(_, _, _)
\* acc: n+4 bits holding a value < 2^n
BigDec(acc, ds, n) ==
  IF ds = <<>> THEN SubSeq(acc, 5, n + 4)
  ELSE LET w == n + 4
           x8 == SubSeq(acc, 4, w) \o <<0, 0, 0>>
           x2 == SubSeq(acc, 2, w) \o <<0>>
           x10 == AddC(x8, x2, 0).sum
           nxt == AddC(x10, BitsOfNat(DigitVal(Head(ds)), w), 0).sum
       IN IF \E i \in 1..4 : nxt[i] = 1 THEN REJECT ELSE BigDec(nxt, Tail(ds), n)

RECURSIVE DropZeros(_)
DropZeros(ds) == IF Len(ds) > 1 /\ Head(ds) = "0" THEN DropZeros(Tail(ds)) ELSE ds

\* bits of the decimal literal at uN, or REJECT
DecValue(pieces, n) ==
  LET ds == Strip(pieces) IN
  IF ds = <<>> THEN REJECT
  ELSE LET sig == DropZeros(ds) IN
       IF Len(sig) <= 9
       THEN LET v == SmallDec(sig) IN
            IF n >= 30 THEN ZeroBits(n - 30) \o BitsOfNat(v, 30)
            ELSE IF v < Pow2(n) THEN BitsOfNat(v, n) ELSE REJECT
       ELSE IF Len(sig) > 78 THEN REJECT      \* 2^256 has 78 digits
       ELSE BigDec(ZeroBits(n + 4), sig, n)

BinValue(pieces, n) ==
  LET ds == Strip(pieces) IN
  IF Len(ds) # n THEN REJECT ELSE [i \in 1..n |-> DigitVal(ds[i])]

HexBits(ds) == Concat([i \in 1..Len(ds) |-> BitsOfNat(DigitVal(ds[i]), 4)])

\* value of a hex literal at type ty (uN or [u8; n]), or REJECT
HexValue(pieces, ty) ==
  LET ds == Strip(pieces) IN
  IF ty.k = "u" THEN (IF ty.n >= 8 /\ Len(ds) * 4 = ty.n THEN VU(HexBits(ds)) ELSE VREJECT)
  ELSE IF ty.k = "arr"
       THEN (IF ty.e = TU(8) /\ Len(ds) = 2 * ty.n /\ ty.n > 0
             THEN VArr([i \in 1..ty.n |-> VU(HexBits(SubSeq(ds, 2 * i - 1, 2 * i)))])
             ELSE VREJECT)
       ELSE VREJECT
=============================================================================
