------------------------------ MODULE Literals ------------------------------
(***************************************************************************)
(* Meaning of integer literals (book/src/type.md and its footnotes, C11):  *)
(*  - decimal: the mathematical value, `_` ignored, must fit the type,     *)
(*    at least one digit;                                                  *)
(*  - binary: exactly N digits for uN;                                     *)
(*  - hexadecimal: exactly N/4 digits for uN (N >= 8), or 2n digits for    *)
(*    [u8; n] (bytes in order).                                            *)
(* A literal is a sequence of one-character pieces.                        *)
(***************************************************************************)
EXTENDS Jets

REJECT == <<2>>                 \* not a bit sequence
VREJECT == [k |-> "reject"]

Strip(s) == SelectSeq(s, LAMBDA c : c # "_")

DigitVal(c) ==
  CASE c = "0" -> 0 [] c = "1" -> 1 [] c = "2" -> 2 [] c = "3" -> 3 [] c = "4" -> 4
    [] c = "5" -> 5 [] c = "6" -> 6 [] c = "7" -> 7 [] c = "8" -> 8 [] c = "9" -> 9
    [] c \in {"a", "A"} -> 10 [] c \in {"b", "B"} -> 11 [] c \in {"c", "C"} -> 12
    [] c \in {"d", "D"} -> 13 [] c \in {"e", "E"} -> 14 [] c \in {"f", "F"} -> 15

RECURSIVE SmallDec(_)
SmallDec(ds) == IF ds = <<>> THEN 0 ELSE 10 * SmallDec(Front(ds)) + DigitVal(Last(ds))

\* Big decimal numbers (more than 9 digits, n >= 32): the accumulator is a little-endian sequence
\* of n/16 + 1 limbs of 16 bits; the extra limb detects a value >= 2^n.
RECURSIVE LimbStep(_, _)
\* 10 * limbs + c, keeping the number of limbs (the caller checks the top limb)
LimbStep(ls, c) == IF ls = <<>> THEN <<>>
                   ELSE LET v == Head(ls) * 10 + c IN <<v % 65536>> \o LimbStep(Tail(ls), v \div 65536)
RECURSIVE BigDec(_, _, _)
BigDec(limbs, ds, n) ==
  IF ds = <<>> THEN Concat([i \in 1..(n \div 16) |-> BitsOfNat(limbs[(n \div 16) + 1 - i], 16)])
  ELSE \* (nx is bound by a set comprehension so that it is evaluated exactly once)
       CHOOSE r \in {IF Last(nx) # 0 THEN REJECT ELSE BigDec(nx, Tail(ds), n)
                       : nx \in {LimbStep(limbs, DigitVal(Head(ds)))}} : TRUE

RECURSIVE DropZeros(_)
DropZeros(ds) == IF Len(ds) > 1 /\ Head(ds) = "0" THEN DropZeros(Tail(ds)) ELSE ds

\* bits of the decimal literal at uN, or REJECT
DecValue(pieces, n) ==
  LET ds == Strip(pieces) IN
  IF ds = <<>> THEN REJECT
  ELSE LET sig == DropZeros(ds) IN
       IF Len(sig) <= 9
       THEN LET v == SmallDec(sig) IN
            IF n >= 30 THEN ZeroBits(n - 30) \o BitsOfNat(v, 30)
            ELSE IF v < Pow2(n) THEN BitsOfNat(v, n) ELSE REJECT
       ELSE IF Len(sig) > 78 \/ n < 32 THEN REJECT      \* 2^256 has 78 digits; 10 digits exceed 2^16
       ELSE BigDec(Rep(0, (n \div 16) + 1), sig, n)

BinValue(pieces, n) ==
  LET ds == Strip(pieces) IN
  IF Len(ds) # n THEN REJECT ELSE [i \in 1..n |-> DigitVal(ds[i])]

HexBits(ds) == Concat([i \in 1..Len(ds) |-> BitsOfNat(DigitVal(ds[i]), 4)])

\* value of a hex literal at type ty (uN or [u8; n]), or REJECT
HexValue(pieces, ty) ==
  LET ds == Strip(pieces) IN
  IF ty.k = "u" THEN (IF ty.n >= 8 /\ Len(ds) * 4 = ty.n THEN VU(HexBits(ds)) ELSE VREJECT)
  ELSE IF ty.k = "arr"
       THEN (IF ty.e = TU(8) /\ Len(ds) = 2 * ty.n /\ ty.n > 0
             THEN VArr([i \in 1..ty.n |-> VU(HexBits(SubSeq(ds, 2 * i - 1, 2 * i)))])
             ELSE VREJECT)
       ELSE VREJECT
=============================================================================
