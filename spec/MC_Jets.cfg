SPECIFICATION Spec
CONSTANTS
  Families <- JtFamilies
  ProgramsOf <- JtProgramsOf
INVARIANT CompileCorrect
INVARIANT DebugNeutral
INVARIANT CodegenTotal
INVARIANT Emit
CHECK_DEADLOCK FALSE
