------------------------- MODULE MC_LayoutMachines -------------------------
(* Model-checks the four explicit-stack algorithms of src/array.rs against the
   documented layout, for every size / bound / length of the tier. *)
EXTENDS LayoutMachines, IOUtils

Thorough == IOEnv.VERIF_TIER = "thorough"
Sizes == IF Thorough THEN 0..300 ELSE (0..40) \cup {63, 64, 65, 127, 128, 129, 255, 256, 257}
Bounds == IF Thorough THEN {2, 4, 8, 16, 32, 64, 128, 256, 512} ELSE {2, 4, 8, 16, 32, 64, 128, 256}
FullLen == IF Thorough THEN 256 ELSE 32

ASSUME LPBAgree == \A k \in 2..600 : LargestPow2Below(k) = LargestPow2BelowDef(k)

Init == \/ \E k \in Sizes : BTInit(k)
        \/ \E k \in Sizes : UFInit(k)
        \/ \E b \in Bounds : \E k \in ListLens(b, FullLen) : PFInit(k, b)
        \/ \E b \in Bounds : \E k \in ListLens(b, FullLen) : CBInit(k, b)
Spec == Init /\ [][Next]_vars
=============================================================================
