SPECIFICATION Spec
CONSTANTS
  Families <- DbFamilies
  ProgramsOf <- DbProgramsOf
INVARIANT GeneratedWellFormed
INVARIANT WitnessTypesAsDeclared
INVARIANT CompileCorrect
INVARIANT DebugNeutral
INVARIANT CodegenTotal
INVARIANT Emit
CHECK_DEADLOCK FALSE
