---------------------------- MODULE MC_ValueText ----------------------------
(***************************************************************************)
(* C15: values, witness / argument maps and types survive print-parse.     *)
(* Enumerates the values whose printed form has special cases (byte arrays *)
(* of every length, nested byte arrays, sub-byte integers, u128 / u256,    *)
(* empty list / array / tuple, singletons, nested options and eithers) and *)
(* maps of 0..6 names.  The reference printer ShowValue (token sequence)   *)
(* is the canonical text of the book; the round trips are decided on the   *)
(* real library:                                                           *)
(*    parse(print(v), type(v)) = v,  parse(print(t)) = t,                   *)
(*    parse(print(map)) = map for the module and the JSON syntax,           *)
(*    module printing sorted by name, duplicate names rejected.             *)
(***************************************************************************)
EXTENDS Family, Json, IOUtils

Thorough == IOEnv.VERIF_TIER = "thorough"

T8 == TU(8)
ByteLens == IF Thorough THEN 0..64 ELSE (0..17) \cup {31, 32, 33, 63, 64}
Types15 ==
  {TArr(T8, n) : n \in ByteLens}
  \cup {TArr(TArr(T8, 2), 2), TArr(TArr(T8, 0), 2), TTup(<<TArr(T8, 3), T8>>), TOpt(TArr(T8, 2)), TList(TArr(T8, 1), 4),
        TEither(TArr(T8, 1), TArr(TU(4), 2)), TArr(TU(4), 2), TArr(TU(16), 2), TArr(TBool, 3), TArr(TTup(<<T8, T8>>), 2),
        TU(1), TU(2), TU(4), T8, TU(16), TU(32), TU(64), TU(128), TU(256), TBool, TUnit,
        TTup(<<T8>>), TTup(<<TUnit>>), TTup(<<TTup(<<T8>>)>>), TTup(<<T8, TBool, TU(128)>>), TArr(TUnit, 2), TArr(T8, 1),
        TList(T8, 2), TList(T8, 4), TList(T8, 8), TList(TUnit, 4), TList(TList(TU(1), 2), 4), TList(TOpt(TBool), 4),
        TOpt(TOpt(TBool)), TOpt(TUnit), TEither(TUnit, TUnit), TEither(TOpt(T8), TEither(TBool, TU(2))),
        TOpt(TList(T8, 2)), TTup(<<TList(T8, 2), TArr(T8, 2), TOpt(TArr(T8, 2))>>), TEither(TList(TArr(T8, 2), 2), TU(256))}
  \cup {BuiltinAlias(a) : a \in BuiltinAliasNames}

\* ---- reference printer (the textual syntax of values, book/src/type.md) -----------------------
HexOfBits(bits) == [i \in 1..(Len(bits) \div 4) |-> HexChars[NatOfBits(SubSeq(bits, 4 * i - 3, 4 * i)) + 1]]
IsByteArray(ty) == ty.k = "arr" /\ ty.e = T8 /\ ty.n > 0
RECURSIVE ShowValue(_, _)
ShowValue(v, ty) ==
  CASE ty.k = "bool" -> <<IF v.bv THEN "true" ELSE "false">>
    [] ty.k = "u" -> IF ty.n <= 16 THEN <<DecPieces(NatOfBits(v.bits))>>      \* decimal up to u64, hex above
                     ELSE IF ty.n <= 64 THEN <<<<"dec:", v.bits>>>>           \* (decimal of wide values: checked by round trip)
                     ELSE <<<<"0x">> \o HexOfBits(v.bits)>>
    [] ty.k = "tup" -> IF Len(ty.es) = 1 THEN <<"(">> \o ShowValue(v.es[1], ty.es[1]) \o <<",", ")">>
                       ELSE <<"(">> \o Commas([i \in 1..Len(ty.es) |-> ShowValue(v.es[i], ty.es[i])]) \o <<")">>
    [] ty.k = "arr" -> IF IsByteArray(ty) THEN <<<<"0x">> \o Concat([i \in 1..ty.n |-> HexOfBits(v.es[i].bits)])>>
                       ELSE <<"[">> \o Commas([i \in 1..ty.n |-> ShowValue(v.es[i], ty.e)]) \o <<"]">>
    [] ty.k = "list" -> <<"list![">> \o Commas([i \in 1..Len(v.es) |-> ShowValue(v.es[i], ty.e)]) \o <<"]">>
    [] ty.k = "opt" -> IF v.k = "vnone" THEN <<"None">> ELSE <<"Some(">> \o ShowValue(v.v, ty.e) \o <<")">>
    [] ty.k = "either" -> IF v.k = "vleft" THEN <<"Left(">> \o ShowValue(v.v, ty.l) \o <<")">>
                          ELSE <<"Right(">> \o ShowValue(v.v, ty.r) \o <<")">>

VARIABLES phase, ty, val
vars == <<phase, ty, val>>
MaxV == IF Thorough THEN 200 ELSE 24
ValsOf(t) == LET all == Vals(t, 2, 4)
                 s == SetToSeq(all)
                 m == Len(s)
             IN IF m <= MaxV THEN all ELSE {s[1 + ((i * m) \div MaxV)] : i \in 0..(MaxV - 1)}

\* maps of 0..6 names
MapNames == <<"A", "B", "C_3", "dd", "E", "z9">>
MapTys == <<T8, TArr(T8, 2), TOpt(TU(2)), TU(256), TList(TBool, 4), TTup(<<TU(1), TEither(TBool, TUnit)>>), TU(128), TUnit>>
MapOf(k, rot) == [i \in 1..k |-> LET t == MapTys[((i + rot) % Len(MapTys)) + 1]
                                     vs == SetToSeq(Vals(t, 2, 4))
                                 IN [n |-> MapNames[i], ty |-> t, v |-> vs[((i * 5 + rot) % Len(vs)) + 1]]]
Maps == {MapOf(k, r) : k \in 0..6, r \in 0..(IF Thorough THEN 15 ELSE 5)}

Init == \/ phase = "type" /\ ty \in Types15 /\ val = <<>>
        \/ phase = "map" /\ ty = TUnit /\ val \in Maps
Next == /\ phase = "type"
        /\ \E v \in ValsOf(ty) : val' = v
        /\ phase' = "val" /\ ty' = ty
Spec == Init /\ [][Next]_vars

EmitType == phase = "type" => PrintT(<<"REPLAY", ToJson([kind |-> "type_text", ty |-> ty, text |-> TokT(ty)])>>)
EmitVal == phase = "val" => PrintT(<<"REPLAY", ToJson([kind |-> "value_text", ty |-> ty, v |-> val, text |-> ShowValue(val, ty)])>>)
EmitMap == phase = "map" => PrintT(<<"REPLAY", ToJson([kind |-> "valmap", entries |-> val])>>)
=============================================================================
