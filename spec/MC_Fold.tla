------------------------------- MODULE MC_Fold ------------------------------
(***************************************************************************)
(* C08: fold::<f, N>(list, init) = f(e_k, ... f(e_2, f(e_1, init))).       *)
(* Order-sensitive fold functions (acc' = 3 * acc + e mod 256; a pair      *)
(* accumulator remembering the last two elements), a panicking function    *)
(* (poisoned element), element types u8, (u1, u8) and Option<u2>; the list *)
(* is a witness (every length as a witness point), a literal, or computed. *)
(* The model checks the doubling construction of compile.rs (ListFoldT)    *)
(* against the reference fold for every bound and length of the tier.      *)
(***************************************************************************)
EXTENDS ProgMC

T8 == TU(8)
U8(n) == VU(BitsOfNat(n % 256, 8))

\* acc' = low byte of 3 * acc, plus e
FMix == IFn("mix", <<Param("e", T8), Param("acc", T8)>>, <<T8>>,
            BlkE(<<SLet(PTup(<<PIgn, PId("lo")>>), TTup(<<T8, T8>>), CastE(TU(16), JetE("multiply_8", <<V("acc"), Dec(3)>>))),
                   SLet(PTup(<<PIgn, PId("s")>>), TTup(<<TBool, T8>>), JetE("add_8", <<V("lo"), V("e")>>))>>, V("s")))
\* panics on the poisoned element 200, otherwise like mix
FPoison == IFn("poison", <<Param("e", T8), Param("acc", T8)>>, <<T8>>,
               BlkE(<<SExpr(AssertE(JetE("lt_8", <<V("e"), Dec(200)>>)))>>, ECall(CFn("mix"), <<V("e"), V("acc")>>)))
\* remembers the last two elements: acc = (previous, last)
TPair8 == TTup(<<T8, T8>>)
FLast2 == IFn("last2", <<Param("e", T8), Param("acc", TPair8)>>, <<TPair8>>,
              BlkE(<<SLet(PTup(<<PIgn, PId("l")>>), TPair8, V("acc"))>>, ETuple(<<V("l"), V("e")>>)))
\* element type (u1, u8): adds the byte only when the flag is set
TFlag == TTup(<<TU(1), T8>>)
FFlag == IFn("flagged", <<Param("e", TFlag), Param("acc", T8)>>, <<T8>>,
             BlkE(<<SLet(PTup(<<PId("fl"), PId("b")>>), TFlag, V("e"))>>,
                  EMatch(CastE(TU(1), V("fl")),
                         <<Arm(MFalse, V("acc")), Arm(MTrue, ECall(CFn("mix"), <<V("b"), V("acc")>>))>>)))
\* element type Option<u2>: counts the Some elements and panics on Some(3)
TO2 == TOpt(TU(2))
FOpt == IFn("opts", <<Param("e", TO2), Param("acc", T8)>>, <<T8>>,
            BlkE(<<>>, EMatch(V("e"), <<Arm(MNone, V("acc")),
                                       Arm(MSome("v", TU(2)),
                                           BlkE(<<SLet(PTup(<<PId("h"), PId("l")>>), TTup(<<TU(1), TU(1)>>), CastE(TU(2), V("v"))),
                                                  SExpr(AssertE(JetE("eq_1", <<JetE("and_1", <<V("h"), V("l")>>), Dec(0)>>))),
                                                  SLet(PTup(<<PIgn, PId("s")>>), TTup(<<TBool, T8>>), JetE("increment_8", <<V("acc")>>))>>,
                                                V("s")))>>)))
\* zero-width elements: the fold counts them (the element carries no bit, so only the NUMBER of applications shows)
FCount == IFn("count", <<Param("e", TUnit), Param("acc", T8)>>, <<T8>>,
              BlkE(<<SLet(PTup(<<PIgn, PId("s")>>), TTup(<<TBool, T8>>), JetE("increment_8", <<V("acc")>>))>>, V("s")))
\* a fold inside a fold function: every element is itself a list (a row), folded with `mix` into the running accumulator
TRow == TList(T8, 4)
FRows == IFn("rows", <<Param("e", TRow), Param("acc", T8)>>, <<T8>>,
             BlkE(<<>>, ECall(CFn("mix"), <<Dec(9), ECall(CFold("mix", 4), <<V("e"), V("acc")>>)>>)))
\* compound elements of which the function reads one component only (the other is never inspected by the program)
TP88 == TTup(<<T8, T8>>)
FFirst == IFn("first", <<Param("e", TP88), Param("acc", T8)>>, <<T8>>,
              BlkE(<<SLet(PTup(<<PId("a"), PIgn>>), TP88, V("e"))>>, ECall(CFn("mix"), <<V("a"), V("acc")>>)))
TO88 == TTup(<<TOpt(T8), T8>>)
FSecond == IFn("second", <<Param("e", TO88), Param("acc", T8)>>, <<T8>>,
               BlkE(<<SLet(PTup(<<PIgn, PId("b")>>), TO88, V("e"))>>, ECall(CFn("mix"), <<V("b"), V("acc")>>)))
Defs == <<FMix, FPoison, FLast2, FFlag, FOpt, FCount, FRows, FFirst, FSecond>>

Bounds == IF Thorough THEN {2, 4, 8, 16, 32, 64, 128, 256, 512} ELSE {2, 4, 8, 16, 32, 64, 128, 256}
FullLen == IF Thorough THEN 64 ELSE 16
Lens(b) == ListLens(b, FullLen)

\* the i-th element of the test lists (distinct, asymmetric)
Elem8(i) == U8(7 * i + 3)
ElemFlag(i) == VTup(<<VU(<<i % 2>>), U8(11 * i + 5)>>)
ElemOpt(i) == IF i % 3 = 0 THEN VNone ELSE VSome(VU(BitsOfNat(i % 3, 2)))

\* fold families: fn name, element type / generator, accumulator type and initial value
Kinds == {[f |-> "mix", te |-> T8, ta |-> T8, init |-> Dec(1)],
          [f |-> "poison", te |-> T8, ta |-> T8, init |-> Dec(1)],
          [f |-> "last2", te |-> T8, ta |-> TPair8, init |-> ETuple(<<Dec(250), Dec(251)>>)],
          [f |-> "flagged", te |-> TFlag, ta |-> T8, init |-> Dec(2)],
          [f |-> "opts", te |-> TO2, ta |-> T8, init |-> Dec(0)],
          [f |-> "count", te |-> TUnit, ta |-> T8, init |-> Dec(0)],
          [f |-> "rows", te |-> TRow, ta |-> T8, init |-> Dec(1)],
          [f |-> "first", te |-> TP88, ta |-> T8, init |-> Dec(1)],
          [f |-> "second", te |-> TO88, ta |-> T8, init |-> Dec(1)]}
NarrowKinds == {"count", "rows", "first", "second"}     \* kinds checked at the small bounds only
ElemOf(kd, i) == CASE kd.te = T8 -> (IF kd.f = "poison" /\ i = 5 THEN U8(200) ELSE Elem8(i))
                   [] kd.te = TFlag -> ElemFlag(i)
                   [] kd.te = TO2 -> (IF kd.f = "opts" /\ i = 9 THEN VSome(VU(<<1, 1>>)) ELSE ElemOpt(i))
                   [] kd.te = TUnit -> VUnit
                   [] kd.te = TP88 -> VTup(<<U8(7 * i + 3), U8(255 - i)>>)
                   [] kd.te = TO88 -> VTup(<<IF i % 2 = 0 THEN VNone ELSE VSome(U8(255 - i)), U8(7 * i + 3)>>)
                   [] kd.te = TRow -> VList([j \in 1..(i % 4) |-> U8(13 * i + 5 * j + 1)])
ListOfLen(kd, n) == VList([i \in 1..n |-> ElemOf(kd, i)])

FoldFamilies == {[kind |-> "wit", kd |-> kd, b |-> b] : kd \in {k2 \in Kinds : k2.f \notin NarrowKinds}, b \in Bounds}
                \cup {[kind |-> "wit", kd |-> kd, b |-> b] : kd \in {k2 \in Kinds : k2.f \in NarrowKinds}, b \in {2, 4, 8, 16}}
                \cup {[kind |-> "pair", kd |-> kd, b |-> b] : kd \in {k2 \in Kinds : k2.f \in {"mix", "last2", "flagged"}}, b \in {4, 8, 16}}
                \cup {[kind |-> "lit", kd |-> kd, b |-> b] : kd \in {k2 \in Kinds : k2.f \in {"mix", "last2"}}, b \in {2, 4, 8, 16}}

\* reference value of the fold (book semantics) to place in EXP
RefFold(kd, lst) ==
  LET m == MainCtx(Defs \o <<Main(Blk(<<>>))>>, G0)
      C == [fns |-> m.G.fns, al |-> m.G.al, wit |-> EmptyFn, args |-> EmptyFn, env |-> DummyEnv]
      init == Ev(kd.init, kd.ta, EmptyFn, C)
  IN FoldLoop(m.G.fns[kd.f], lst.es, 1, init, C)

Bump(v, ta) == IF ta = T8 THEN VU(AddC(v.bits, ZeroBits(8), 1).sum) ELSE VTup(<<v.es[2], v.es[1]>>)

WitProgram(kd, b) ==
  LET tl == TList(kd.te, b)
      items == Defs \o <<Main(Blk(<<SLet(PId("l"), tl, EWit("L")),
                                    SLet(PId("r"), kd.ta, ECall(CFold(kd.f, b), <<V("l"), kd.init>>)),
                                    SLet(PId("x"), kd.ta, EWit("EXP"))>> \o Obs(kd.ta, "r", "x")))>>
      lens == SetToSeq(Lens(b))
      pt(n, good) == LET lst == ListOfLen(kd, n)
                         v == RefFold(kd, lst)
                     IN ("L" :> lst) @@ ("EXP" :> IF IsFail(v) THEN ZeroVal(kd.ta) ELSE IF good THEN v ELSE Bump(v, kd.ta))
  IN [items |-> items, wdecls |-> <<<<"L", tl>>, <<"EXP", kd.ta>>>>, args |-> EmptyFn,
      space |-> [i \in 1..(2 * Len(lens)) |-> pt(lens[(i + 1) \div 2], i % 2 = 1)]]

\* the list arrives inside a tuple witness, behind the initial accumulator (and in front of an unrelated component):
\* `let (init, xs, z): (A, List<E, N>, u8) = witness::IN; fold::<f, N>(xs, init)` with init = the family's initial value
PairProgram(kd, b) ==
  LET tl == TList(kd.te, b)
      tin == TTup(<<kd.ta, tl, T8>>)
      items == Defs \o <<Main(Blk(<<SLet(PTup(<<PId("i0"), PId("l"), PIgn>>), tin, EWit("IN")),
                                    SLet(PId("r"), kd.ta, ECall(CFold(kd.f, b), <<V("l"), V("i0")>>)),
                                    SLet(PId("x"), kd.ta, EWit("EXP"))>> \o Obs(kd.ta, "r", "x")))>>
      m == MainCtx(Defs \o <<Main(Blk(<<>>))>>, G0)
      C == [fns |-> m.G.fns, al |-> m.G.al, wit |-> EmptyFn, args |-> EmptyFn, env |-> DummyEnv]
      init == Ev(kd.init, kd.ta, EmptyFn, C)
      lens == SetToSeq({n \in Lens(b) : n <= 9})
      pt(n, good) == LET lst == ListOfLen(kd, n)
                         v == RefFold(kd, lst)
                     IN ("IN" :> VTup(<<init, lst, U8(n)>>))
                        @@ ("EXP" :> IF IsFail(v) THEN ZeroVal(kd.ta) ELSE IF good THEN v ELSE Bump(v, kd.ta))
  IN [items |-> items, wdecls |-> <<<<"IN", tin>>, <<"EXP", kd.ta>>>>, args |-> EmptyFn,
      space |-> [i \in 1..(2 * Len(lens)) |-> pt(lens[(i + 1) \div 2], i % 2 = 1)]]

\* literal list (elements written in the program) and computed list (elements from a function call)
LitProgram(kd, b, n, computed) ==
  LET tl == TList(kd.te, b)
      lit(i) == LET e == LitOf(ElemOf(kd, i), kd.te) IN IF computed /\ i % 2 = 1 THEN Call1(CDbg, EParen(e)) ELSE e
      items == Defs \o <<Main(Blk(<<SLet(PId("r"), kd.ta, ECall(CFold(kd.f, b), <<EList([i \in 1..n |-> lit(i)]), kd.init>>)),
                                    SLet(PId("x"), kd.ta, EWit("EXP"))>> \o Obs(kd.ta, "r", "x")))>>
      v == RefFold(kd, ListOfLen(kd, n))
  IN [items |-> items, wdecls |-> <<<<"EXP", kd.ta>>>>, args |-> EmptyFn,
      space |-> <<("EXP" :> v), ("EXP" :> Bump(v, kd.ta))>>]

FoldProgramsOf(f) ==
  IF f.kind = "wit" THEN {WitProgram(f.kd, f.b)}
  ELSE IF f.kind = "pair" THEN {PairProgram(f.kd, f.b)}
  ELSE {LitProgram(f.kd, f.b, n, c) : n \in 0..(f.b - 1), c \in BOOLEAN}
=============================================================================
